package main

// Goroutines, scheduler, channels, sync primitives, atomics and the
// vector-clock race detector.

import (
	"fmt"
	"strings"
	"go/token"
	"go/types"
	"sort"

	"golang.org/x/tools/go/ssa"
)

type VC []int

func (a VC) get(i int) int {
	if i < len(a) {
		return a[i]
	}
	return 0
}

func (a *VC) join(b VC) {
	for len(*a) < len(b) {
		*a = append(*a, 0)
	}
	for i, v := range b {
		if v > (*a)[i] {
			(*a)[i] = v
		}
	}
}

func (a VC) clone() VC { return append(VC(nil), a...) }

type killed struct{}

type G struct {
	id        int
	wake      chan struct{}
	exited    chan struct{}
	done      bool
	kill      bool
	canRun    func() bool
	yieldMark int
	seenWrites int
	spins     int
	vc        VC
	started   bool
}

type Sched struct {
	r        *Run
	gs       []*G
	cur      *G
	history  []int
	nsteps   int // visible operations performed while several goroutines existed (budget MaxSchedSteps)
	preempt  int
	progress int
	fatal    interface{}
	syncs    map[cellKey]*syncState
	clock    int
	lastRunner int
	writes   int // state-changing visible operations so far
}

type cellKey struct {
	o   *Obj
	off int
}

type syncState struct {
	locked   bool
	readers  int
	counter  int
	clk      VC // writer / general clock
	rclk     VC // reader clock (RWMutex)
	waiters  int
}

func newSched(r *Run) *Sched {
	s := &Sched{r: r, syncs: map[cellKey]*syncState{}}
	g0 := &G{id: 0, wake: make(chan struct{}, 1), exited: make(chan struct{}), yieldMark: -1, vc: VC{1}, started: true}
	s.gs = []*G{g0}
	s.cur = g0
	return s
}

func (r *Run) curG() *G {
	if r.sched == nil {
		return nil
	}
	return r.sched.cur
}

func (s *Sched) multi() bool { return len(s.gs) > 1 }

func (s *Sched) enabled(g *G) bool {
	if g.done {
		return false
	}
	if g.canRun != nil && !g.canRun() {
		return false
	}
	if g.yieldMark >= 0 && s.writes == g.yieldMark {
		// fairness: a goroutine that called Gosched is not rescheduled until some other goroutine has
		// changed shared state (its retry could not observe anything new before that)
		return false
	}
	return true
}

func (s *Sched) enabledOthers(g *G) []int {
	var out []int
	for _, x := range s.gs {
		if x != g && s.enabled(x) {
			out = append(out, x.id)
		}
	}
	sort.Ints(out)
	return out
}

// handoff gives the baton to `to`; `from` parks unless it has exited.
func (s *Sched) handoff(from, to *G, fromExits bool) {
	s.cur = to
	to.wake <- struct{}{}
	if fromExits {
		return
	}
	<-from.wake
	if from.kill {
		panic(killed{})
	}
	if s.fatal != nil && from.id == 0 {
		f := s.fatal
		s.fatal = nil
		panic(f)
	}
}

// point is called by the running goroutine immediately before a visible operation.
func (s *Sched) point(kind string) {
	g := s.cur
	r := s.r
	k := 0
	if strings.HasPrefix(kind, "atomic.") {
		k = 1
	} else if kind == "Lock" || kind == "Unlock" || kind == "RLock" || kind == "RUnlock" {
		k = 3
	} else if strings.HasPrefix(kind, "WaitGroup.") {
		k = 4
	} else if kind == "send" || kind == "recv" || kind == "close" || kind == "select" {
		k = 5
	} else if kind == "vx.Gate" {
		k = 6
	}
	if !s.multi() {
		// single-goroutine phases (before the first go statement, after the last exit) are recorded too, so
		// that the native schedule controller sees every gated operation of the main goroutine in order
		if k != 0 && len(s.history) < 4*r.w.ex.cfg.MaxSchedSteps {
			s.history = append(s.history, g.id*8+k)
		}
		return
	}
	others := s.enabledOthers(g)
	if len(others) > 0 && s.preempt < r.w.ex.cfg.Preempt {
		cands := append([]int{g.id}, others...)
		pick := r.ChooseFrom(cands, 's')
		if pick != g.id {
			s.preempt++
			s.handoff(g, s.gs[pick], false)
		}
	}
	s.step(g, k)
}

// step records that g performs a visible operation now.
func (s *Sched) step(g *G, kind int) {
	// history entry: goroutine id * 8 + kind (0 other, 1 sync/atomic operation, 2 runtime.Gosched, 3 mutex operation,
	// 4 WaitGroup operation, 5 channel operation, 6 harness gate)
	s.history = append(s.history, g.id*8+kind)
	s.progress++
	s.clock++
	g.yieldMark = -1
	if s.lastRunner != g.id {
		for _, x := range s.gs {
			if x != g {
				x.spins = 0
			}
		}
	}
	s.lastRunner = g.id
	s.nsteps++
	if s.nsteps > s.r.w.ex.cfg.MaxSchedSteps {
		panic(abortRun{"schedule length budget exceeded"})
	}
}

// block parks g until cond() holds; free context switch.  Returns when g has the baton and cond() is true.
func (s *Sched) block(cond func() bool, what string) {
	g := s.cur
	for !cond() {
		g.canRun = cond
		s.switchAway(g, "blocked on "+what)
		g.canRun = nil
	}
}

// switchAway: g cannot (or does not want to) continue; pick another enabled goroutine.
func (s *Sched) switchAway(g *G, why string) {
	r := s.r
	others := s.enabledOthers(g)
	if len(others) == 0 {
		// nobody can run
		r.violation("deadlock", "deadlock: all goroutines blocked ("+why+")", "deadlock")
		panic(pathEnd{"deadlock"})
	}
	pick := r.ChooseFrom(others, 's')
	s.handoff(g, s.gs[pick], false)
}

func (s *Sched) yield() {
	g := s.cur
	if !s.multi() {
		return
	}
	s.step(g, 2)
	// fairness: if shared state has changed since this goroutine's previous yield (or its start), one more
	// retry is meaningful and it stays schedulable; otherwise it is parked until another goroutine changes
	// shared state (its retry could not observe anything new)
	if s.writes != g.seenWrites {
		g.seenWrites = s.writes
		g.yieldMark = -1
	} else {
		g.yieldMark = s.writes
	}
	others := s.enabledOthers(g)
	if len(others) == 0 {
		g.yieldMark = -1
		g.spins++
		if g.spins > 3 {
			alive := 0
			for _, x := range s.gs {
				if !x.done {
					alive++
				}
			}
			s.r.violation("deadlock", fmt.Sprintf("livelock: goroutine %d spins on Gosched and no other goroutine can make progress", g.id), "livelock")
			panic(pathEnd{"livelock"})
		}
		return
	}
	pick := s.r.ChooseFrom(others, 's')
	s.handoff(g, s.gs[pick], false)
}

func (r *Run) spawn(fr *frame, fn Value, args []Value) {
	if r.sched == nil {
		r.unsupported("go statement without scheduler")
	}
	s := r.sched
	parent := s.cur
	if len(s.gs) >= r.w.ex.cfg.MaxGoroutines {
		panic(abortRun{"goroutine budget exceeded"})
	}
	g := &G{id: len(s.gs), wake: make(chan struct{}, 1), exited: make(chan struct{}), yieldMark: -1}
	g.vc = parent.vc.clone()
	for len(g.vc) <= g.id {
		g.vc = append(g.vc, 0)
	}
	g.vc[g.id] = 1
	parent.vc[parent.id]++
	s.gs = append(s.gs, g)
	go func() {
		<-g.wake
		defer close(g.exited)
		if g.kill {
			return
		}
		finished := false
		defer func() {
			if finished {
				return
			}
			x := recover()
			g.done = true
			switch x := x.(type) {
			case killed:
				return
			case targetPanic:
				func() {
					defer func() {
						if y := recover(); y != nil {
							s.fatal = y
						}
					}()
					r.violation("panic", "unrecovered panic in goroutine: "+r.describePanic(x.v), "goroutine-panic")
					s.fatal = pathEnd{"panic in goroutine"}
				}()
			default:
				s.fatal = x
			}
			// wake the main goroutine so that it unwinds
			s.cur = s.gs[0]
			s.gs[0].wake <- struct{}{}
		}()
		g.started = true
		r.call(nil, token.NoPos, fn, args)
		// normal exit
		s.step(g, 0)
		g.done = true
		finished = true
		others := s.enabledOthers(g)
		if len(others) == 0 {
			allDone := true
			for _, x := range s.gs {
				if !x.done {
					allDone = false
				}
			}
			if allDone {
				return
			}
			func() {
				defer func() {
					if y := recover(); y != nil {
						s.fatal = y
					}
				}()
				r.violation("deadlock", "deadlock: all remaining goroutines blocked", "deadlock")
				s.fatal = pathEnd{"deadlock"}
			}()
			s.cur = s.gs[0]
			s.gs[0].wake <- struct{}{}
			return
		}
		var pick int
		func() {
			defer func() {
				if y := recover(); y != nil {
					s.fatal = y
					pick = 0
				}
			}()
			pick = r.ChooseFrom(others, 's')
		}()
		s.cur = s.gs[pick]
		s.gs[pick].wake <- struct{}{}
	}()
	s.point("go")
}

func (s *Sched) killAll() {
	for _, g := range s.gs[1:] {
		select {
		case <-g.exited:
			continue
		default:
		}
		g.kill = true
		g.wake <- struct{}{}
		<-g.exited
	}
}

// ---- vector-clock helpers ----

func (s *Sched) acquire(g *G, clk VC) { g.vc.join(clk) }
func (s *Sched) release(g *G, clk *VC) {
	*clk = g.vc.clone()
	g.vc[g.id]++
}
func (s *Sched) releaseJoin(g *G, clk *VC) {
	clk.join(g.vc)
	g.vc[g.id]++
}

func (s *Sched) sync(p Ptr) *syncState {
	k := cellKey{p.obj, p.off}
	st, ok := s.syncs[k]
	if !ok {
		st = &syncState{}
		s.syncs[k] = st
	}
	return st
}

// ---- race detection on plain accesses ----

type cellRace struct {
	wg, wc  int // last write epoch (goroutine, clock); wg<0 none
	watomic bool
	reads   map[int]int
}

type raceMeta struct {
	cells map[int]*cellRace
}

func (r *Run) raceOn() bool { return r.sched != nil && len(r.sched.gs) > 1 && r.w.ex.cfg.Race }

func (r *Run) raceCell(o *Obj, idx int) *cellRace {
	if o.race == nil {
		o.race = &raceMeta{cells: map[int]*cellRace{}}
		r.raceObjs = append(r.raceObjs, o)
	}
	c := o.race.cells[idx]
	if c == nil {
		c = &cellRace{wg: -1}
		o.race.cells[idx] = c
	}
	return c
}

func (r *Run) raceRead(o *Obj, idx int) {
	if o == nil || !r.raceOn() || o.ro {
		return
	}
	g := r.sched.cur
	c := r.raceCell(o, idx)
	if c.wg >= 0 && c.wg != g.id && c.wc > g.vc.get(c.wg) {
		r.reportRace(o, idx, "read", g.id, "write", c.wg)
	}
	if c.reads == nil {
		c.reads = map[int]int{}
	}
	c.reads[g.id] = g.vc[g.id]
}

func (r *Run) raceWrite(o *Obj, idx int) {
	if o == nil || !r.raceOn() {
		return
	}
	g := r.sched.cur
	c := r.raceCell(o, idx)
	if c.wg >= 0 && c.wg != g.id && c.wc > g.vc.get(c.wg) {
		r.reportRace(o, idx, "write", g.id, "write", c.wg)
	}
	for rg, rc := range c.reads {
		if rg != g.id && rc > g.vc.get(rg) {
			r.reportRace(o, idx, "write", g.id, "read", rg)
		}
	}
	c.wg, c.wc, c.watomic = g.id, g.vc[g.id], false
	c.reads = nil
}

// atomic accesses: conflict only with unordered *plain* accesses
func (r *Run) raceAtomic(o *Obj, idx int, write bool) {
	if o == nil || !r.raceOn() {
		return
	}
	g := r.sched.cur
	c := r.raceCell(o, idx)
	if c.wg >= 0 && !c.watomic && c.wg != g.id && c.wc > g.vc.get(c.wg) {
		r.reportRace(o, idx, "atomic access", g.id, "plain write", c.wg)
	}
	if write {
		for rg, rc := range c.reads {
			if rg != g.id && rc > g.vc.get(rg) {
				r.reportRace(o, idx, "atomic write", g.id, "plain read", rg)
			}
		}
		c.wg, c.wc, c.watomic = g.id, g.vc[g.id], true
		c.reads = nil
	}
}

func (r *Run) raceReadMap(m *MapObj) {
	if m == nil || !r.raceOn() {
		return
	}
	g := r.sched.cur
	if m.race == nil {
		m.race = &raceMeta{cells: map[int]*cellRace{0: {wg: -1}}}
	}
	c := m.race.cells[0]
	if c.wg >= 0 && c.wg != g.id && c.wc > g.vc.get(c.wg) {
		r.reportRaceMsg(fmt.Sprintf("data race on map: read by goroutine %d, unordered write by goroutine %d", g.id, c.wg))
	}
	if c.reads == nil {
		c.reads = map[int]int{}
	}
	c.reads[g.id] = g.vc[g.id]
}

func (r *Run) raceWriteMap(m *MapObj) {
	if m == nil || !r.raceOn() {
		return
	}
	g := r.sched.cur
	if m.race == nil {
		m.race = &raceMeta{cells: map[int]*cellRace{0: {wg: -1}}}
	}
	c := m.race.cells[0]
	if c.wg >= 0 && c.wg != g.id && c.wc > g.vc.get(c.wg) {
		r.reportRaceMsg(fmt.Sprintf("data race on map: write by goroutine %d, unordered write by goroutine %d", g.id, c.wg))
	}
	for rg, rc := range c.reads {
		if rg != g.id && rc > g.vc.get(rg) {
			r.reportRaceMsg(fmt.Sprintf("data race on map: write by goroutine %d, unordered read by goroutine %d", g.id, rg))
		}
	}
	c.wg, c.wc = g.id, g.vc[g.id]
	c.reads = nil
}

func (r *Run) reportRace(o *Obj, idx int, a string, ga int, b string, gb int) {
	r.reportRaceMsg(fmt.Sprintf("data race on %s[%d]: %s by goroutine %d, unordered %s by goroutine %d", o.label, idx, a, ga, b, gb))
}

func (r *Run) reportRaceMsg(msg string) {
	r.violation("race", msg, "race")
	panic(pathEnd{"race"})
}

// ---- sync/atomic ----

func (r *Run) atomicPre(p Ptr, kind string) *syncState {
	if p.obj == nil {
		r.nilDeref()
	}
	if r.sched == nil {
		return nil
	}
	r.sched.point(kind)
	return r.sched.sync(p)
}

func (r *Run) atomicLoad(p Ptr) Value {
	st := r.atomicPre(p, "atomic.Load")
	if st != nil {
		r.sched.acquire(r.sched.cur, st.clk)
		r.raceAtomic(p.obj, p.off, false)
	}
	return p.obj.cells[p.off]
}

func (r *Run) atomicStore(p Ptr, v Value) {
	st := r.atomicPre(p, "atomic.Store")
	if st != nil {
		r.raceAtomic(p.obj, p.off, true)
		r.sched.release(r.sched.cur, &st.clk)
	}
	r.rawStore(p, v)
}

func (r *Run) rawStore(p Ptr, v Value) {
	if r.sched != nil {
		r.sched.writes++
	}
	if p.obj.pre {
		r.undo = append(r.undo, undoRec{p.obj, p.off, p.obj.cells[p.off]})
	}
	p.obj.cells[p.off] = v
}

func (r *Run) atomicRMW(p Ptr, f func(old Value) Value) (old, nw Value) {
	st := r.atomicPre(p, "atomic.RMW")
	if st != nil {
		g := r.sched.cur
		r.sched.acquire(g, st.clk)
		r.raceAtomic(p.obj, p.off, true)
		r.sched.release(g, &st.clk)
	}
	old = p.obj.cells[p.off]
	nw = f(old)
	r.rawStore(p, nw)
	return
}

func (r *Run) atomicCAS(p Ptr, t types.Type, old, nw Value) *Term {
	st := r.atomicPre(p, "atomic.CAS")
	cur := p.obj.cells[p.off]
	eq := r.equal(t, cur, old)
	ok := r.Branch(eq)
	if st != nil {
		g := r.sched.cur
		r.sched.acquire(g, st.clk)
		if ok {
			r.raceAtomic(p.obj, p.off, true)
			r.sched.release(g, &st.clk)
		} else {
			r.raceAtomic(p.obj, p.off, false)
		}
	}
	if ok {
		r.rawStore(p, nw)
	}
	return r.ctx().Bool(ok)
}

// ---- mutexes, wait groups ----

func (r *Run) needSched(what string) *Sched {
	if r.sched == nil {
		r.unsupported("%s without scheduler", what)
	}
	return r.sched
}

func (r *Run) mutexLock(p Ptr) {
	s := r.needSched("Mutex.Lock")
	st := s.sync(p)
	s.point("Lock")
	if !s.multi() && st.locked {
		r.violation("deadlock", "deadlock: Lock of a locked mutex with a single goroutine", "deadlock")
		panic(pathEnd{"deadlock"})
	}
	s.block(func() bool { return !st.locked && st.readers == 0 }, "Mutex.Lock")
	s.writes++
st.locked = true
	s.acquire(s.cur, st.clk)
	s.acquire(s.cur, st.rclk)
}

func (r *Run) mutexUnlock(p Ptr) {
	s := r.needSched("Mutex.Unlock")
	st := s.sync(p)
	s.point("Unlock")
	if !st.locked {
		r.goPanicFatal("sync: unlock of unlocked mutex")
	}
	s.writes++
	st.locked = false
	s.release(s.cur, &st.clk)
}

func (r *Run) mutexTryLock(p Ptr) *Term {
	s := r.needSched("Mutex.TryLock")
	st := s.sync(p)
	s.point("TryLock")
	if st.locked || st.readers > 0 {
		return r.ctx().False
	}
	st.locked = true
	s.acquire(s.cur, st.clk)
	s.acquire(s.cur, st.rclk)
	return r.ctx().True
}

func (r *Run) rwRLock(p Ptr) {
	s := r.needSched("RWMutex.RLock")
	st := s.sync(p)
	s.point("RLock")
	s.block(func() bool { return !st.locked }, "RWMutex.RLock")
	s.writes++
	st.readers++
	s.acquire(s.cur, st.clk)
}

func (r *Run) rwRUnlock(p Ptr) {
	s := r.needSched("RWMutex.RUnlock")
	st := s.sync(p)
	s.point("RUnlock")
	if st.readers <= 0 {
		r.goPanicFatal("sync: RUnlock of unlocked RWMutex")
	}
	s.writes++
	st.readers--
	s.releaseJoin(s.cur, &st.rclk)
}

func (r *Run) goPanicFatal(msg string) {
	// "fatal error" in Go: not recoverable; report as panic violation
	r.violation("panic", "fatal error: "+msg, "fatal")
	panic(pathEnd{"fatal error"})
}

func (r *Run) wgAdd(p Ptr, delta *Term) {
	s := r.needSched("WaitGroup.Add")
	st := s.sync(p)
	s.point("WaitGroup.Add")
	d := int(int64(r.Concretize(r.ctx().Sext(delta, 64), 16, "WaitGroup delta")))
	s.writes++
	st.counter += d
	if st.counter < 0 {
		r.goPanicRuntimeStr("sync: negative WaitGroup counter")
	}
	s.releaseJoin(s.cur, &st.clk)
}

func (r *Run) wgWait(p Ptr) {
	s := r.needSched("WaitGroup.Wait")
	st := s.sync(p)
	s.point("WaitGroup.Wait")
	s.block(func() bool { return st.counter == 0 }, "WaitGroup.Wait")
	s.acquire(s.cur, st.clk)
}

func (r *Run) goPanicRuntimeStr(msg string) {
	panic(targetPanic{Iface{t: types.Typ[types.String], v: r.constString(msg)}})
}

// ---- channels ----

type chanMsg struct {
	v     Value
	clk   VC
	taken *bool
}

type ChanObj struct {
	id      int
	buf     []chanMsg
	cap     int
	closed  bool
	elem    types.Type
	recvClk VC
	closeClk VC
	never   bool // timer channel that never fires
}

func (r *Run) newChan(n int, elem types.Type) *ChanObj {
	r.w.objSeq++
	return &ChanObj{id: r.w.objSeq, cap: n, elem: elem}
}

func (ch *ChanObj) canSend() bool {
	if ch.closed {
		return true // will panic
	}
	if ch.cap == 0 {
		return len(ch.buf) == 0
	}
	return len(ch.buf) < ch.cap
}

func (ch *ChanObj) canRecv() bool { return len(ch.buf) > 0 || ch.closed }

func (r *Run) chanSend(fr *frame, ch *ChanObj, v Value) {
	s := r.needSched("chan send")
	s.point("send")
	if ch == nil {
		s.block(func() bool { return false }, "send on nil channel")
	}
	s.block(ch.canSend, "chan send")
	r.doSend(ch, v)
}

func (r *Run) doSend(ch *ChanObj, v Value) {
	s := r.sched
	s.writes++
	if ch.closed {
		r.goPanicRuntimeStr("send on closed channel")
	}
	g := s.cur
	s.acquire(g, ch.recvClk)
	msg := chanMsg{v: v, clk: g.vc.clone()}
	g.vc[g.id]++
	if ch.cap == 0 {
		taken := false
		msg.taken = &taken
		ch.buf = append(ch.buf, msg)
		s.block(func() bool { return taken }, "unbuffered send rendezvous")
		s.acquire(g, ch.recvClk)
		return
	}
	ch.buf = append(ch.buf, msg)
}

func (r *Run) chanRecv(fr *frame, ch *ChanObj, commaOk bool, elem types.Type) Value {
	s := r.needSched("chan recv")
	s.point("recv")
	if ch == nil {
		s.block(func() bool { return false }, "receive from nil channel")
	}
	s.block(ch.canRecv, "chan recv")
	v, ok := r.doRecv(ch, elem)
	if commaOk {
		return Tuple{v, r.ctx().Bool(ok)}
	}
	return v
}

func (r *Run) doRecv(ch *ChanObj, elem types.Type) (Value, bool) {
	s := r.sched
	s.writes++
	g := s.cur
	if len(ch.buf) > 0 {
		msg := ch.buf[0]
		ch.buf = ch.buf[1:]
		s.acquire(g, msg.clk)
		ch.recvClk.join(g.vc)
		g.vc[g.id]++
		if msg.taken != nil {
			*msg.taken = true
		}
		return msg.v, true
	}
	// closed
	s.acquire(g, ch.closeClk)
	return r.w.zero(elem), false
}

func (r *Run) chanClose(fr *frame, ch *ChanObj) {
	s := r.needSched("close")
	s.point("close")
	if ch == nil {
		r.goPanicRuntimeStr("close of nil channel")
	}
	if ch.closed {
		r.goPanicRuntimeStr("close of closed channel")
	}
	s.writes++
	ch.closed = true
	s.release(s.cur, &ch.closeClk)
}

func (r *Run) selectOp(fr *frame, instr *ssa.Select) Value {
	s := r.needSched("select")
	s.point("select")
	c := r.ctx()
	type st struct {
		ch   *ChanObj
		send bool
		v    Value
	}
	states := make([]st, len(instr.States))
	for i, x := range instr.States {
		states[i].ch, _ = fr.get(x.Chan).(*ChanObj)
		states[i].send = x.Dir == types.SendOnly
		if states[i].send {
			states[i].v = fr.get(x.Send)
		}
	}
	ready := func() []int {
		var out []int
		for i, x := range states {
			if x.ch == nil || x.ch.never {
				continue
			}
			if x.send && x.ch.canSend() || !x.send && x.ch.canRecv() {
				out = append(out, i)
			}
		}
		return out
	}
	rd := ready()
	if len(rd) == 0 {
		if !instr.Blocking {
			return r.selectResult(instr, -1, nil, false)
		}
		s.block(func() bool { return len(ready()) > 0 }, "select")
		rd = ready()
	}
	pick := rd[0]
	if len(rd) > 1 {
		pick = r.ChooseFrom(rd, 'h')
	}
	x := states[pick]
	if x.send {
		r.doSend(x.ch, x.v)
		return r.selectResult(instr, pick, nil, false)
	}
	v, ok := r.doRecv(x.ch, x.ch.elem)
	_ = c
	return r.selectResult(instr, pick, v, ok)
}

func (r *Run) selectResult(instr *ssa.Select, idx int, recv Value, ok bool) Value {
	c := r.ctx()
	res := Tuple{c.Const(64, uint64(int64(idx))), c.Bool(ok)}
	for i, x := range instr.States {
		if x.Dir == types.RecvOnly {
			et := x.Chan.Type().Underlying().(*types.Chan).Elem()
			if i == idx {
				res = append(res, recv)
			} else {
				res = append(res, r.w.zero(et))
			}
		}
	}
	return res
}

func (r *Run) describePanic(v Value) string {
	if it, ok := v.(Iface); ok {
		if it.t == nil {
			return "nil"
		}
		switch x := it.v.(type) {
		case Str:
			if s, ok := r.concreteString(x); ok {
				return it.t.String() + ": " + s
			}
		case *Term:
			if x.IsConst() {
				return fmt.Sprintf("%s: %d", it.t, x.c)
			}
		case Ptr:
			// *errors.errorString and friends: try the first cell
			if x.obj != nil && len(x.obj.cells) > x.off {
				if s, ok := x.obj.cells[x.off].(Str); ok {
					if cs, ok := r.concreteString(s); ok {
						return it.t.String() + ": " + cs
					}
				}
			}
		}
		return it.t.String()
	}
	return fmt.Sprintf("%T", v)
}
