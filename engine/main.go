package main

import (
	"fmt"
	"golang.org/x/tools/go/packages"
	"golang.org/x/tools/go/ssa"
	"golang.org/x/tools/go/ssa/ssautil"
)

func main() {
	cfg := &packages.Config{Mode: packages.LoadAllSyntax, Dir: "/repo"}
	pkgs, err := packages.Load(cfg, "./strz")
	if err != nil {
		panic(err)
	}
	prog, _ := ssautil.AllPackages(pkgs, ssa.InstantiateGenerics)
	prog.Build()
	fmt.Println(len(ssautil.AllFunctions(prog)))
}
