package main

// gosym: bounded symbolic execution of Go SSA with an SMT solver.
//
//   gosym -job job.json -out result.json
//
// job.json: {"dir": "/verif/harness", "patterns": ["./c07"], "overlay": {"/repo/x/zz.go": "/verif/inpkg/x.go"},
//            "jobs": [{"harness": "vh/c07.HexRoundTrip", "params": {"n": 3}, "cfg": {"MaxFork": 64}}]}

import (
	"sync"
	"runtime/debug"
	"runtime/pprof"
	"encoding/json"
	"flag"
	"fmt"
	"os"
	"sort"
	"strings"
	"time"

	"golang.org/x/tools/go/ssa"
)

type JobFile struct {
	Dir      string            `json:"dir"`
	Patterns []string          `json:"patterns"`
	Overlay  map[string]string `json:"overlay"`
	Jobs     []Job             `json:"jobs"`
}

type Job struct {
	Harness string           `json:"harness"`
	Params  map[string]int64 `json:"params"`
	Cfg     map[string]int64 `json:"cfg"`
	MapOrder string          `json:"map_order"`
	Label   string           `json:"label"`
}

type JobResult struct {
	Harness    string                   `json:"harness"`
	Label      string                   `json:"label"`
	Params     map[string]int64         `json:"params"`
	Paths      int64                    `json:"paths"`
	PathsOK    int64                    `json:"paths_completed"`
	PathsAssume int64                   `json:"paths_ended_by_assume"`
	Aborts     map[string]int           `json:"aborts"`
	EngineErrs []string                 `json:"engine_errors"`
	Violations []*Violation             `json:"violations"`
	Covers     map[string]int           `json:"covers"`
	Decisions  int64                    `json:"decisions"`
	Instrs     int64                    `json:"instructions"`
	Asserts    int64                    `json:"assertions_reached"`
	AssertsSym int64                    `json:"assertions_symbolic"`
	Queries    int64                    `json:"queries"`
	QSat       int64                    `json:"queries_sat"`
	QUnsat     int64                    `json:"queries_unsat"`
	QUnknown   int64                    `json:"queries_unknown"`
	Fallbacks  int64                    `json:"fallback_queries"`
	CacheHits  int64                    `json:"query_cache_hits"`
	CoreHits   int64                    `json:"unsat_core_hits"`
	PoolHits   int64                    `json:"model_pool_hits"`
	XCheck     *XCheck                  `json:"solver_crosscheck,omitempty"`
	SolverS    float64                  `json:"solver_s"`
	WallS      float64                  `json:"wall_s"`
	InitS      float64                  `json:"init_s"`
	ModelS     float64                  `json:"model_fetch_s"`
	Funcs      []string                 `json:"functions_encoded"`
	Stubs      []string                 `json:"stubs_used"`
	Opaque     []string                 `json:"bodyless_calls"`
	Samples    []map[string]interface{} `json:"samples"`
	Witnesses  []*Witness               `json:"witnesses"`
	MaxDepth   int                      `json:"max_decisions_on_a_path"`
	Error      string                   `json:"error,omitempty"`
	Cfg        map[string]interface{}   `json:"cfg"`
}

func main() {
	jobPath := flag.String("job", "", "job file")
	outPath := flag.String("out", "", "result file")
	verbose := flag.Bool("v", false, "verbose")
	cpuprof := flag.String("cpuprofile", "", "write cpu profile")
	flag.Parse()
	debug.SetGCPercent(600) // allocation-heavy interpreter, plenty of memory: trade memory for GC time
	if *cpuprof != "" {
		f, _ := os.Create(*cpuprof)
		pprof.StartCPUProfile(f)
		defer pprof.StopCPUProfile()
	}
	if *jobPath == "" {
		fmt.Fprintln(os.Stderr, "usage: gosym -job job.json -out result.json")
		os.Exit(2)
	}
	data, err := os.ReadFile(*jobPath)
	if err != nil {
		fatal(err)
	}
	var jf JobFile
	if err := json.Unmarshal(data, &jf); err != nil {
		fatal(err)
	}
	overlay := map[string][]byte{}
	for virt, real := range jf.Overlay {
		b, err := os.ReadFile(real)
		if err != nil {
			fatal(err)
		}
		overlay[virt] = b
	}
	t0 := time.Now()
	prog, pkgs, err := loadProgram(jf.Dir, jf.Patterns, overlay)
	if err != nil {
		fatal(err)
	}
	loadS := time.Since(t0).Seconds()
	if *verbose {
		fmt.Fprintf(os.Stderr, "loaded in %.1fs\n", loadS)
	}
	var results []*JobResult
	for _, job := range jf.Jobs {
		res := runJob(prog, job, *verbose)
		results = append(results, res)
		if *verbose {
			fmt.Fprintf(os.Stderr, "%s %s: paths=%d ok=%d ended=%d viol=%d aborts=%v wall=%.1fs queries=%d %s %v\n", job.Harness, job.Label, res.Paths, res.PathsOK, res.PathsAssume, len(res.Violations), res.Aborts, res.WallS, res.Queries, res.Error, res.EngineErrs)
		}
	}
	_ = pkgs
	xcheckWG.Wait()
	out := map[string]interface{}{"load_s": loadS, "results": results}
	b, _ := json.MarshalIndent(out, "", " ")
	if *outPath != "" {
		if err := os.WriteFile(*outPath, b, 0644); err != nil {
			fatal(err)
		}
	} else {
		os.Stdout.Write(b)
	}
}

var xcheckWG sync.WaitGroup

func fatal(err error) {
	fmt.Fprintln(os.Stderr, "gosym:", err)
	os.Exit(2)
}

func runJob(prog *ssa.Program, job Job, verbose bool) *JobResult {
	res := &JobResult{Harness: job.Harness, Label: job.Label, Params: job.Params}
	cfg := defaultConfig()
	for k, v := range job.Params {
		cfg.Params[k] = v
	}
	for k, v := range job.Cfg {
		switch k {
		case "MaxInstr":
			cfg.MaxInstr = v
		case "MaxDecisions":
			cfg.MaxDecisions = int(v)
		case "MaxFork":
			cfg.MaxFork = int(v)
		case "MaxSymIndex":
			cfg.MaxSymIndex = int(v)
		case "MaxPaths":
			cfg.MaxPaths = v
		case "Preempt":
			cfg.Preempt = int(v)
		case "Race":
			cfg.Race = v != 0
		case "Workers":
			cfg.Workers = int(v)
		case "QueryTimeoutMs":
			cfg.QueryTimeoutMs = int(v)
		case "MaxGoroutines":
			cfg.MaxGoroutines = int(v)
		case "MaxSchedSteps":
			cfg.MaxSchedSteps = int(v)
		case "StopAtFirst":
			cfg.StopAtFirst = v != 0
		case "MaxViolations":
			cfg.MaxViolations = int(v)
		case "MaxAlloc":
			cfg.MaxAlloc = int(v)
		case "FallbackTimeoutS":
			cfg.FallbackTimeoutS = int(v)
		case "SliceOnly":
			cfg.SliceOnly = v != 0
		case "MaxCache":
			cfg.MaxCache = int(v)
		case "Witnesses":
			cfg.Witnesses = int(v)
		case "WitnessEvery":
			cfg.WitnessEvery = v
		case "XCheckEvery":
			cfg.XCheckEvery = int(v)
		case "XCheckMax":
			cfg.XCheckMax = int(v)
		case "MaxDepth":
			cfg.MaxDepth = int(v)
		default:
			res.Error = "unknown cfg key " + k
			return res
		}
	}
	if job.MapOrder != "" {
		cfg.MapOrder = job.MapOrder
	}
	res.Cfg = map[string]interface{}{"MaxInstr": cfg.MaxInstr, "MaxDecisions": cfg.MaxDecisions, "MaxFork": cfg.MaxFork, "Preempt": cfg.Preempt, "MapOrder": cfg.MapOrder, "Workers": cfg.Workers, "QueryTimeoutMs": cfg.QueryTimeoutMs}
	i := strings.LastIndex(job.Harness, ".")
	if i < 0 {
		res.Error = "harness must be pkgpath.Func"
		return res
	}
	pkgPath, fname := job.Harness[:i], job.Harness[i+1:]
	pkg := prog.ImportedPackage(pkgPath)
	if pkg == nil {
		res.Error = "package not loaded: " + pkgPath
		return res
	}
	fn := pkg.Func(fname)
	if fn == nil {
		res.Error = "no function " + fname + " in " + pkgPath
		return res
	}
	ex := &Explorer{cfg: cfg, prog: prog, harnessPkg: pkg, harnessFn: fn, harnessName: job.Harness,
		aborts: map[string]int{}, violSigs: map[string]bool{}, funcs: map[string]bool{}, opaque: map[string]bool{}, stubs: map[string]bool{},
		covers: map[string]int{}, methodCache: map[string]*ssa.Function{}, implCache: map[string]bool{}, initAllow: map[string]bool{}}
	for _, p := range defaultInitAllow {
		ex.initAllow[p] = true
	}
	rt := prog.ImportedPackage("runtime")
	if rt == nil {
		res.Error = "runtime package not loaded"
		return res
	}
	ex.runtimeErrT = rt.Type("errorString").Type()
	ex.registerIntrinsics()
	if p := os.Getenv("GOSYM_DUMP"); p != "" {
		ex.dumpF, _ = os.Create(p)
		defer ex.dumpF.Close()
	}
	t0 := time.Now()
	if err := ex.Explore(); err != nil {
		res.Error = err.Error()
	}
	res.WallS = time.Since(t0).Seconds()
	res.InitS = ex.initS
	res.ModelS = ex.valDur.Seconds()
	res.Paths, res.PathsOK, res.PathsAssume = ex.paths, ex.pathsOK, ex.pathsAssumeEnd
	res.Aborts = ex.aborts
	res.EngineErrs = ex.engineErrs
	res.Violations = ex.viols
	res.Covers = ex.covers
	res.Decisions, res.Instrs = ex.decisions, ex.instrs
	res.Asserts, res.AssertsSym = ex.asserts, ex.assertsSym
	res.Queries, res.QSat, res.QUnsat, res.QUnknown = ex.totalQueries, ex.qSat, ex.qUnsat, ex.qUnknown
	res.Fallbacks = ex.fallbacks
	res.CacheHits = ex.cacheHits
	res.CoreHits = ex.coreHits
	res.PoolHits = ex.poolHits
	if cfg.XCheckEvery > 0 {
		// the second-opinion solvers run while the next job explores; main waits for them before writing results
		samples := ex.xsamples
		xcheckWG.Add(1)
		go func() {
			defer xcheckWG.Done()
			res.XCheck = runXCheck(samples, os.Getenv("GOSYM_XDUMP"))
		}()
	}
	res.SolverS = ex.solverDur.Seconds()
	res.Funcs = sortedKeys(ex.funcs)
	res.Stubs = sortedKeys(ex.stubs)
	res.Opaque = sortedKeys(ex.opaque)
	res.Samples = ex.samples
	res.Witnesses = ex.witnesses
	res.MaxDepth = ex.maxDepthSeen
	sort.Slice(res.Violations, func(i, j int) bool { return res.Violations[i].Msg < res.Violations[j].Msg })
	return res
}
