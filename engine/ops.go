package main

import (
	"fmt"
	"go/token"
	"go/types"
)

func (r *Run) binop(op token.Token, xt types.Type, x, y Value, yt types.Type) Value {
	c := r.ctx()
	switch op {
	case token.EQL:
		return r.equalMixed(xt, x, y, yt)
	case token.NEQ:
		return c.Not(r.equalMixed(xt, x, y, yt))
	}
	if isString(xt) {
		xs, ys := x.(Str), y.(Str)
		switch op {
		case token.ADD:
			if xs.n == 0 {
				return ys
			}
			if ys.n == 0 {
				return xs
			}
			return r.mkString(append(r.strBytes(xs), r.strBytes(ys)...))
		case token.LSS:
			return r.strLess(xs, ys)
		case token.GTR:
			return r.strLess(ys, xs)
		case token.LEQ:
			return c.Not(r.strLess(ys, xs))
		case token.GEQ:
			return c.Not(r.strLess(xs, ys))
		}
		r.unsupported("string binop %s", op)
	}
	if isFloat(xt) {
		return Opaque{"float arithmetic"}
	}
	w, signed, ok := intInfo(xt)
	if !ok {
		r.unsupported("binop %s on %s", op, xt)
	}
	a := r.termOf(x, "binop")
	b := r.termOf(y, "binop")
	switch op {
	case token.ADD:
		return c.Bin(OAdd, a, b)
	case token.SUB:
		return c.Bin(OSub, a, b)
	case token.MUL:
		return c.Bin(OMul, a, b)
	case token.QUO, token.REM:
		r.panicIf(c.Eq(b, c.Const(w, 0)), "integer divide by zero")
		if signed {
			if op == token.QUO {
				return c.Bin(OSDiv, a, b)
			}
			return c.Bin(OSRem, a, b)
		}
		if op == token.QUO {
			return c.Bin(OUDiv, a, b)
		}
		return c.Bin(OURem, a, b)
	case token.AND:
		if w == 0 {
			return c.And(a, b)
		}
		return c.Bin(OAnd, a, b)
	case token.OR:
		if w == 0 {
			return c.Or(a, b)
		}
		return c.Bin(OOr, a, b)
	case token.XOR:
		return c.Bin(OXor, a, b)
	case token.AND_NOT:
		return c.Bin(OAnd, a, c.Un(ONot, b))
	case token.SHL, token.SHR:
		_, ysigned, _ := intInfo(yt)
		if ysigned {
			r.panicIf(c.Cmp(OSlt, b, c.Const(b.w, 0)), "negative shift amount")
		}
		// bring the count to the operand width, saturating at w
		var cnt *Term
		var big *Term // count >= w
		if b.w > w {
			big = c.Not(c.Cmp(OUlt, b, c.Const(b.w, uint64(w))))
			cnt = c.Extract(b, w-1, 0)
		} else {
			cnt = c.Zext(b, w)
			big = c.Not(c.Cmp(OUlt, cnt, c.Const(w, uint64(w))))
		}
		var sh, over *Term
		if op == token.SHL {
			sh = c.Bin(OShl, a, cnt)
			over = c.Const(w, 0)
		} else if signed {
			sh = c.Bin(OAshr, a, cnt)
			over = c.Bin(OAshr, a, c.Const(w, uint64(w-1)))
		} else {
			sh = c.Bin(OLshr, a, cnt)
			over = c.Const(w, 0)
		}
		return c.Ite(big, over, sh)
	case token.LSS:
		if signed {
			return c.Cmp(OSlt, a, b)
		}
		return c.Cmp(OUlt, a, b)
	case token.LEQ:
		if signed {
			return c.Cmp(OSle, a, b)
		}
		return c.Cmp(OUle, a, b)
	case token.GTR:
		if signed {
			return c.Cmp(OSlt, b, a)
		}
		return c.Cmp(OUlt, b, a)
	case token.GEQ:
		if signed {
			return c.Cmp(OSle, b, a)
		}
		return c.Cmp(OUle, b, a)
	}
	r.unsupported("binop %s", op)
	return nil
}

// equalMixed handles == where one side may be an interface compared with nil etc.
func (r *Run) equalMixed(xt types.Type, x, y Value, yt types.Type) *Term {
	if isFloat(xt) {
		r.unsupported("float comparison")
	}
	if _, ok := x.(Opaque); ok {
		r.unsupported("comparison of opaque value")
	}
	if _, ok := y.(Opaque); ok {
		r.unsupported("comparison of opaque value")
	}
	return r.equal(xt, x, y)
}

func (r *Run) conv(dst, src types.Type, x Value) Value {
	c := r.ctx()
	ud, us := dst.Underlying(), src.Underlying()
	// pointer <-> unsafe.Pointer
	switch us.(type) {
	case *types.Pointer:
		if b, ok := ud.(*types.Basic); ok && b.Kind() == types.UnsafePointer {
			return x
		}
		if _, ok := ud.(*types.Pointer); ok {
			return x
		}
	}
	if b, ok := us.(*types.Basic); ok && b.Kind() == types.UnsafePointer {
		if dp, ok := ud.(*types.Pointer); ok {
			p := x.(Ptr)
			// detect a reinterpreting cast to an array/scalar of a different integer width
			if p.obj != nil && p.sym == nil && p.off < len(p.obj.cells) {
				if cell, isT := p.obj.cells[p.off].(*Term); isT && cell.w > 0 {
					et := dp.Elem()
					if arr, isArr := et.Underlying().(*types.Array); isArr {
						et = arr.Elem()
					}
					if w, _, isInt := intInfo(et); isInt && w != 0 && w != cell.w {
						p.view = w
					}
				}
			}
			return p
		}
		if bd, ok := ud.(*types.Basic); ok && bd.Kind() == types.Uintptr {
			r.unsupported("unsafe.Pointer -> uintptr")
		}
	}
	if bs, ok := us.(*types.Basic); ok && bs.Kind() == types.Uintptr {
		if bd, ok := ud.(*types.Basic); ok && bd.Kind() == types.UnsafePointer {
			r.unsupported("uintptr -> unsafe.Pointer")
		}
	}
	// string conversions
	if isString(ud) {
		switch s := us.(type) {
		case *types.Basic:
			if isString(s) {
				return x
			}
			if _, _, ok := intInfo(s); ok {
				// string(rune)
				return r.runeToString(r.termOf(x, "string(rune)"), s)
			}
		case *types.Slice:
			sl := x.(Slice)
			if eb, ok := s.Elem().Underlying().(*types.Basic); ok {
				if eb.Kind() == types.Uint8 {
					return r.mkString(r.sliceBytes(sl))
				}
				if eb.Kind() == types.Int32 {
					return r.runesToString(sl)
				}
			}
		}
		r.unsupported("conversion %s -> string", src)
	}
	if ds, ok := ud.(*types.Slice); ok && isString(us) {
		s := x.(Str)
		eb := ds.Elem().Underlying().(*types.Basic)
		if eb.Kind() == types.Uint8 {
			o := r.allocArray(ds.Elem(), s.n, "[]byte(string)")
			for i, b := range r.strBytes(s) {
				o.cells[i] = b
			}
			return Slice{obj: o, len: s.n, cap: s.n}
		}
		if eb.Kind() == types.Int32 {
			return r.stringToRunes(s, ds.Elem())
		}
		r.unsupported("conversion string -> %s", dst)
	}
	if _, ok := ud.(*types.Slice); ok {
		return x
	}
	// numeric
	if isFloat(ud) || isFloat(us) {
		return Opaque{"float conversion"}
	}
	dw, _, dok := intInfo(ud)
	sw, ssigned, sok := intInfo(us)
	if dok && sok && dw != 0 && sw != 0 {
		t := r.termOf(x, "convert")
		if dw <= sw {
			return c.Extract(t, dw-1, 0)
		}
		if ssigned {
			return c.Sext(t, dw)
		}
		return c.Zext(t, dw)
	}
	if dok && sok && dw == 0 && sw == 0 {
		return x
	}
	// other identity-like conversions (func types, channels, maps, named structs)
	switch ud.(type) {
	case *types.Signature, *types.Map, *types.Chan, *types.Struct, *types.Array, *types.Interface, *types.Pointer:
		return x
	}
	r.unsupported("conversion %s -> %s", src, dst)
	return nil
}

// ---- rune/string conversions, done by the interpreted unicode/utf8 code ----

func (r *Run) utf8Func(name string) *Closure {
	f := r.w.ex.stdFunc("unicode/utf8", name)
	if f == nil {
		r.unsupported("unicode/utf8.%s not loaded", name)
	}
	return &Closure{fn: f}
}

func (r *Run) runeToString(t *Term, bt types.Type) Str {
	c := r.ctx()
	w, signed, _ := intInfo(bt)
	var rn *Term
	if w < 32 {
		if signed {
			rn = c.Sext(t, 32)
		} else {
			rn = c.Zext(t, 32)
		}
	} else if w > 32 {
		// values outside int32 range become U+FFFD
		var inRange *Term
		if signed {
			inRange = c.And(c.Cmp(OSle, c.Const(w, uint64(0)), t), c.Cmp(OSle, t, c.Const(w, 0x10FFFF)))
		} else {
			inRange = c.Cmp(OUle, t, c.Const(w, 0x10FFFF))
		}
		rn = c.Ite(inRange, c.Extract(t, 31, 0), c.Const(32, 0xFFFD))
	} else {
		rn = t
	}
	res := r.call(nil, token.NoPos, r.utf8Func("AppendRune"), []Value{Slice{}, rn})
	sl := res.(Slice)
	return r.mkString(r.sliceBytes(sl))
}

func (r *Run) runesToString(sl Slice) Str {
	var acc Value = Slice{}
	ap := r.utf8Func("AppendRune")
	for i := 0; i < sl.len; i++ {
		acc = r.call(nil, token.NoPos, ap, []Value{acc, sl.obj.cells[sl.off+i]})
	}
	return r.mkString(r.sliceBytes(acc.(Slice)))
}

func (r *Run) decodeRune(s Str) (*Term, int) {
	res := r.call(nil, token.NoPos, r.utf8Func("DecodeRuneInString"), []Value{s}).(Tuple)
	sz := r.termOf(res[1], "rune size")
	n := int(r.Concretize(sz, 8, "rune size"))
	return res[0].(*Term), n
}

func (r *Run) stringToRunes(s Str, et types.Type) Slice {
	var rs []*Term
	for s.n > 0 {
		rn, n := r.decodeRune(s)
		rs = append(rs, rn)
		s = Str{s.obj, s.off + n, s.n - n}
	}
	o := r.allocArray(et, len(rs), "[]rune(string)")
	for i, t := range rs {
		o.cells[i] = t
	}
	return Slice{obj: o, len: len(rs), cap: len(rs)}
}

var _ = fmt.Sprint
