package main

// One Run = one execution of a harness along one decision vector.

import (
	"fmt"
	"os"
	"time"
	"sort"
)

type Dec struct {
	K byte  // 'b' branch, 'c' concretise, 'h' choose, 's' schedule, 'm' map key slot, 'o' map order
	V int64 // payload
}

func (d Dec) String() string { return fmt.Sprintf("%c%d", d.K, d.V) }

// sentinels (host panics that end a run; never visible to the target program)
type pathEnd struct{ why string }   // infeasible assume, normal early end
type abortRun struct{ why string }  // unsupported / budget / solver unknown -> inconclusive
type targetPanic struct{ v Value }  // a Go panic in the interpreted program

type inputRec struct {
	Name string
	T    *Term
}

type Violation struct {
	Harness string            `json:"harness"`
	Msg     string            `json:"msg"`
	Sig     string            `json:"sig"`
	Kind    string            `json:"kind"` // assert | panic | deadlock | race
	Inputs  []ReplayInput     `json:"inputs"`
	Decs    string            `json:"decisions"`
	Sched   []int             `json:"schedule,omitempty"`
	Chooses []int64           `json:"chooses,omitempty"`
	Extra   map[string]string `json:"extra,omitempty"`
	UF      []UFEntry         `json:"uf,omitempty"`
	Params  map[string]int64  `json:"params,omitempty"`
	Site    string            `json:"site,omitempty"`
}

type UFEntry struct {
	Name string   `json:"name"`
	Args []uint64 `json:"args"`
	V    uint64   `json:"v"`
}

type ReplayInput struct {
	Name string `json:"name"`
	W    int    `json:"w"`
	V    uint64 `json:"v"`
}

type Run struct {
	w       *Worker
	prefix  []Dec
	trace   []Dec
	pc      []*Term
	pcSet   map[*Term]bool
	model   *Model
	ufParent   map[int]int
	groupConj  map[int][]*Term
	groupVars  map[int][]int
	groupValid map[int]bool
	solverOpen bool
	solverSynced int
	impDone map[*Term]bool
	lastMs  *Term
	durMs   map[*Term]*Term
	inputs  []inputRec
	nInstr  int64
	nDecs   int
	covers  map[string]int
	obs     []obsRec
	obsStr  []string
	raceObjs []*Obj
	witness *Witness
	pendingUF []UFEntry
	viols   []*Violation
	undo    []undoRec
	mundo   []mapUndo
	sched   *Sched
	chooses []int64
	inputSeq int
	asserts int // assertions reached with non-constant condition
	assertsTotal int
	stubs   map[string]bool
	ufApps  []*Term
}

type undoRec struct {
	o   *Obj
	off int
	old Value
}

func (r *Run) ctx() *TermCtx { return r.w.ctx }

func (r *Run) unsupported(format string, a ...interface{}) {
	panic(abortRun{"unsupported: " + fmt.Sprintf(format, a...)})
}

// ---- constraint independence: variables are grouped by the conjuncts that relate them ----

func (r *Run) find(v int) int {
	p, ok := r.ufParent[v]
	if !ok {
		r.ufParent[v] = v
		r.groupValid[v] = true
		return v
	}
	if p == v {
		return v
	}
	root := r.find(p)
	r.ufParent[v] = root
	return root
}

func (r *Run) union(a, b int) int {
	ra, rb := r.find(a), r.find(b)
	if ra == rb {
		return ra
	}
	if len(r.groupConj[ra]) < len(r.groupConj[rb]) {
		ra, rb = rb, ra
	}
	r.ufParent[rb] = ra
	r.groupConj[ra] = append(r.groupConj[ra], r.groupConj[rb]...)
	r.groupVars[ra] = append(r.groupVars[ra], r.groupVars[rb]...)
	r.groupValid[ra] = r.groupValid[ra] && r.groupValid[rb]
	delete(r.groupConj, rb)
	delete(r.groupVars, rb)
	delete(r.groupValid, rb)
	return ra
}

// rootsOf returns the distinct group roots of the variables of t (registering new variables).
func (r *Run) rootsOf(t *Term) []int {
	vs := r.ctx().VarsOf(t)
	var roots []int
	for _, v := range vs {
		if _, ok := r.ufParent[v]; !ok {
			r.ufParent[v] = v
			r.groupValid[v] = true
			r.groupVars[v] = []int{v}
		}
		root := r.find(v)
		dup := false
		for _, x := range roots {
			if x == root {
				dup = true
				break
			}
		}
		if !dup {
			roots = append(roots, root)
		}
	}
	return roots
}

func (r *Run) assertPC(t *Term) {
	if t.IsTrue() {
		return
	}
	r.pc = append(r.pc, t)
	r.pcSet[t] = true
	if t.op == OBAnd { // record conjuncts as known facts too
		for _, a := range t.a {
			r.pcSet[a] = true
		}
	}
	roots := r.rootsOf(t)
	if len(roots) == 0 {
		return
	}
	root := roots[0]
	for _, x := range roots[1:] {
		root = r.union(root, x)
	}
	root = r.find(root)
	r.groupConj[root] = append(r.groupConj[root], t)
	if r.groupValid[root] {
		v, ok := r.model.Eval(t)
		r.groupValid[root] = ok && v != 0
	}
}

// known reports whether t is syntactically implied (true) or refuted (false) by the path condition.
func (r *Run) known(t *Term) (val bool, ok bool) {
	if t.IsTrue() {
		return true, true
	}
	if t.IsFalse() {
		return false, true
	}
	if r.pcSet[t] {
		return true, true
	}
	if t.op == OBNot {
		if r.pcSet[t.a[0]] {
			return false, true
		}
	} else if r.pcSet[r.ctx().Not(t)] {
		return false, true
	}
	return false, false
}

func (r *Run) inputTerms() []*Term {
	ts := make([]*Term, 0, len(r.inputs))
	for _, in := range r.inputs {
		ts = append(ts, in.T)
	}
	return ts
}

type qkey struct{ a, b uint64 }

type qres struct {
	res  Res
	vals []uint64 // model values, aligned with the sorted variable list of the slice
}

func mix(h, x uint64) uint64 {
	h ^= x + 0x9e3779b97f4a7c15 + (h << 6) + (h >> 2)
	h *= 0xff51afd7ed558ccd
	h ^= h >> 33
	return h
}

// slice collects the conjuncts and variables relevant to extra.
func (r *Run) slice(extra *Term) (conj []*Term, vars []int) {
	roots := r.rootsOf(extra)
	for _, root := range roots {
		conj = append(conj, r.groupConj[root]...)
		vars = append(vars, r.groupVars[root]...)
	}
	return
}

// query decides PC ∧ extra using only the independent slice of PC that shares variables with extra.
// With install, a sat answer updates the model on the slice's variables.
func (r *Run) query(extra *Term, install bool) Res {
	if extra.IsFalse() {
		return Unsat
	}
	conj, vars := r.slice(extra)
	w := r.w
	// structural cache key: identical across workers (variable names are deterministic)
	hs := make([][2]uint64, 0, len(conj))
	for _, t := range conj {
		hs = append(hs, [2]uint64{t.h1, t.h2})
	}
	sort.Slice(hs, func(i, j int) bool { return hs[i][0] < hs[j][0] || hs[i][0] == hs[j][0] && hs[i][1] < hs[j][1] })
	k := qkey{extra.h1 + 1, extra.h2 ^ 0x1234567}
	for _, h := range hs {
		k.a = mix(k.a, h[0])
		k.b = mix(k.b^0xabcdef, h[1])
	}
	// variables in a worker-independent order (by name hash)
	sort.Slice(vars, func(i, j int) bool {
		a, b := w.ctx.varByID[vars[i]], w.ctx.varByID[vars[j]]
		if a == nil || b == nil {
			return a != nil
		}
		return a.h1 < b.h1
	})
	if w.ex.cfg.MaxCache > 0 {
		if c, ok := w.ex.cacheGet(k); ok && (c.res == Unsat || !install || c.vals != nil) {
			w.cacheHits++
			if c.res == Sat && install {
				r.installVals(vars, c.vals, extra)
			}
			return c.res
		}
	}
	// (1) unsat cores recorded for this question: any core contained in the current slice decides it
	var conjSet map[[2]uint64]bool
	if w.ex.cfg.MaxCache > 0 {
		if cores := w.ex.coresGet(qkey{extra.h1, extra.h2}); len(cores) > 0 {
			conjSet = make(map[[2]uint64]bool, len(hs))
			for _, h := range hs {
				conjSet[h] = true
			}
		next:
			for _, core := range cores {
				for _, h := range core {
					if !conjSet[h] {
						continue next
					}
				}
				w.coreHits++
				return Unsat
			}
		}
		// (2) a recent model of the same variable set that happens to satisfy slice ∧ extra
		if !extra.hasUF {
			if vals, ok := r.tryModelPool(conj, vars, extra); ok {
				w.poolHits++
				w.ex.cachePut(k, qres{res: Sat, vals: vals})
				if install {
					r.installVals(vars, vals, extra)
				}
				return Sat
			}
		}
	}
	w.missByRoots[len(r.rootsOf(extra))&63]++
	if os.Getenv("GOSYM_MISS") != "" {
		fmt.Fprintf(os.Stderr, "MISS nconj=%d key=%x extra=%s\n", len(conj), k.a, extra.Deep(4))
	}
	s := w.solver
	var res Res
	var core []*Term
	tq := time.Now()
	if w.ex.cfg.SliceOnly {
		s.Push()
		for _, t := range conj {
			s.Assert(t)
		}
		s.Assert(extra)
		res = s.Check()
	} else {
		// every PC conjunct is asserted once per run as (=> p_i t_i); a query assumes the literals of the
		// independent slice plus the one of extra: persistent internalisation, no push/pop, unsat cores
		if !r.solverOpen {
			s.Push()
			r.solverOpen = true
			r.impDone = map[*Term]bool{}
		}
		lits := make([]*Term, 0, len(conj)+1)
		for _, t := range conj {
			if !r.impDone[t] {
				s.AssertImp(t)
				r.impDone[t] = true
			}
			lits = append(lits, t)
		}
		// extra is asserted in an inner scope and popped afterwards: inactive implications left behind
		// in the run scope were observed to send the solver into very long searches
		s.Push()
		s.Assert(extra)
		res, core = s.CheckAssuming(lits)
		core = append(core, extra)
	}
	w.nQueries++
	if d := time.Since(tq); d > 2*time.Second && os.Getenv("GOSYM_SLOWQ") != "" {
		if p := os.Getenv("GOSYM_SLOWQ_DUMP"); p != "" {
			os.WriteFile(p, []byte(w.standaloneScript(append(append([]*Term(nil), conj...), extra))), 0644)
		}
		fmt.Fprintf(os.Stderr, "SLOWQ %.1fs res=%v nconj=%d extra=%s\n", d.Seconds(), res, len(conj), extra.Deep(14))
		for _, cj := range conj {
			fmt.Fprintf(os.Stderr, "   conj %s\n", cj.Deep(8))
		}
	}
	if res != Unknown && w.ex.cfg.XCheckEvery > 0 {
		w.xseen++
		// unsat answers carry the "holds" verdicts: sample them twice as often
		every := int64(w.ex.cfg.XCheckEvery)
		if res == Unsat {
			every = (every + 1) / 2
		}
		if w.xseen%every == 0 && len(w.xsamples) < w.ex.cfg.XCheckMax {
			sc := w.standaloneScript(append(append([]*Term(nil), conj...), extra))
			if len(sc) < 1<<20 {
				w.xsamples = append(w.xsamples, xsample{script: sc, res: res})
			}
		}
	}
	if s.restarted {
		s.restarted = false
		r.solverOpen = false
		r.impDone = nil
	}
	if res == Unsat && core != nil && w.ex.cfg.MaxCache > 0 {
		var ch [][2]uint64
		for _, t := range core {
			if t != extra {
				ch = append(ch, [2]uint64{t.h1, t.h2})
			}
		}
		w.ex.coresPut(qkey{extra.h1, extra.h2}, ch)
	}
	var vals []uint64
	if res == Sat {
		// always fetch the slice model: it makes the cache entry reusable for install requests
		vts := make([]*Term, len(vars))
		for i, v := range vars {
			vts[i] = w.ctx.varByID[v]
		}
		var ufTerms []*Term
		if install && len(r.ufApps) > 0 {
			for _, u := range r.ufApps {
				ufTerms = append(ufTerms, u)
				ufTerms = append(ufTerms, u.a...)
			}
			for _, t := range ufTerms {
				s.define(t)
			}
		}
		m := s.Values(append(vts, ufTerms...))
		vals = make([]uint64, len(vars))
		for i, t := range vts {
			if t != nil {
				vals[i] = m[t]
			}
		}
		if ufTerms != nil {
			r.pendingUF = nil
			for _, u := range r.ufApps {
				e := UFEntry{Name: u.name, V: m[u]}
				for _, a := range u.a {
					e.Args = append(e.Args, m[a])
				}
				r.pendingUF = append(r.pendingUF, e)
			}
		}
	}
	s.Pop()
	if res == Sat && vals != nil {
		w.ex.poolPut(vars, w.ctx, vals)
	}
	if res == Unknown {
		fvars := make([]*Term, len(vars))
		for i, v := range vars {
			fvars[i] = w.ctx.varByID[v]
		}
		var fvals []uint64
		res, fvals = w.fallbackQuery(r, conj, extra, fvars)
		if res == Unknown {
			panic(abortRun{"solver returned unknown"})
		}
		if res == Sat {
			if fvals == nil {
				// no model from the fallback
				w.ex.cachePut(k, qres{res: Sat})
				if install {
					r.invalidate(extra)
				}
				return Sat
			}
			vals = fvals
		}
	}
	w.ex.cachePut(k, qres{res: res, vals: vals})
	if res == Sat && install {
		r.installVals(vars, vals, extra)
	}
	return res
}

func (r *Run) invalidate(extra *Term) {
	for _, root := range r.rootsOf(extra) {
		r.groupValid[root] = false
	}
}

// installVals writes slice model values into the model; the groups of the slice become valid
// (they satisfy their conjuncts and extra).
func (r *Run) installVals(vars []int, vals []uint64, extra *Term) {
	c := r.ctx()
	for i, v := range vars {
		if t := c.varByID[v]; t != nil {
			r.model.vals[t] = vals[i]
		}
	}
	r.model.memo = map[*Term]uint64{}
	for _, root := range r.rootsOf(extra) {
		r.groupValid[root] = true
	}
}

// modelEval evaluates t under the current model if the model is valid for every group t depends on.
func (r *Run) modelEval(t *Term) (uint64, bool) {
	if t.hasUF {
		return 0, false
	}
	for _, root := range r.rootsOf(t) {
		if !r.groupValid[root] {
			return 0, false
		}
	}
	return r.model.Eval(t)
}

func (r *Run) forced() (Dec, bool) {
	if len(r.trace) < len(r.prefix) {
		return r.prefix[len(r.trace)], true
	}
	return Dec{}, false
}

func (r *Run) record(d Dec) {
	r.trace = append(r.trace, d)
	r.nDecs++
	if r.nDecs > r.w.ex.cfg.MaxDecisions {
		panic(abortRun{fmt.Sprintf("decision budget exceeded (%d)", r.w.ex.cfg.MaxDecisions)})
	}
}

func (r *Run) queueAlt(d Dec) {
	alt := make([]Dec, len(r.trace)+1)
	copy(alt, r.trace)
	alt[len(r.trace)] = d
	r.w.ex.push(alt)
}

func b2i(b bool) int64 {
	if b {
		return 1
	}
	return 0
}

// Choose is an enumerated n-way choice (no solver involved).
func (r *Run) Choose(n int, kind byte) int {
	if n <= 0 {
		panic(engineErr{"Choose(0)"})
	}
	if n == 1 && kind != 'h' {
		return 0
	}
	if d, ok := r.forced(); ok {
		if d.K != kind {
			panic(engineErr{fmt.Sprintf("determinism: forced %v at a choice of kind %c (pos %d)", d, kind, len(r.trace))})
		}
		r.record(d)
		return int(d.V)
	}
	for i := n - 1; i >= 1; i-- {
		r.queueAlt(Dec{kind, int64(i)})
	}
	r.record(Dec{kind, 0})
	return 0
}

// ChooseFrom is Choose over an explicit list of payloads (e.g. goroutine ids).
func (r *Run) ChooseFrom(vals []int, kind byte) int {
	if len(vals) == 1 {
		return vals[0]
	}
	if d, ok := r.forced(); ok {
		if d.K != kind {
			panic(engineErr{fmt.Sprintf("determinism: forced %v at a choice of kind %c (pos %d)", d, kind, len(r.trace))})
		}
		r.record(d)
		return int(d.V)
	}
	for i := len(vals) - 1; i >= 1; i-- {
		r.queueAlt(Dec{kind, int64(vals[i])})
	}
	r.record(Dec{kind, int64(vals[0])})
	return vals[0]
}

func (r *Run) NewInput(name string, w int) *Term {
	nm := fmt.Sprintf("in%d_%s_w%d", r.inputSeq, sanitize(name), w)
	r.inputSeq++
	t := r.ctx().Var(nm, w)
	r.inputs = append(r.inputs, inputRec{name, t})
	return t
}

func sanitize(s string) string {
	b := []byte(s)
	for i, ch := range b {
		if !(ch >= 'a' && ch <= 'z' || ch >= 'A' && ch <= 'Z' || ch >= '0' && ch <= '9' || ch == '_') {
			b[i] = '_'
		}
	}
	return string(b)
}


// tryModelPool looks for a recently found model over exactly this variable set that satisfies slice ∧ extra.
func (r *Run) tryModelPool(conj []*Term, vars []int, extra *Term) ([]uint64, bool) {
	w := r.w
	cands := w.ex.poolGet(vars, w.ctx)
	for _, vals := range cands {
		m := NewModel()
		for i, v := range vars {
			if t := w.ctx.varByID[v]; t != nil {
				m.vals[t] = vals[i]
			}
		}
		if v, ok := m.Eval(extra); !ok || v == 0 {
			continue
		}
		good := true
		for _, t := range conj {
			if v, ok := m.Eval(t); !ok || v == 0 {
				good = false
				break
			}
		}
		if good {
			return vals, true
		}
	}
	return nil, false
}
