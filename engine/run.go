package main

// One Run = one execution of a harness along one decision vector.

import (
	"fmt"
	"sort"
)

type Dec struct {
	K byte  // 'b' branch, 'c' concretise, 'h' choose, 's' schedule, 'm' map key slot, 'o' map order
	V int64 // payload
}

func (d Dec) String() string { return fmt.Sprintf("%c%d", d.K, d.V) }

// sentinels (host panics that end a run; never visible to the target program)
type pathEnd struct{ why string }   // infeasible assume, normal early end
type abortRun struct{ why string }  // unsupported / budget / solver unknown -> inconclusive
type targetPanic struct{ v Value }  // a Go panic in the interpreted program

type inputRec struct {
	Name string
	T    *Term
}

type Violation struct {
	Harness string            `json:"harness"`
	Msg     string            `json:"msg"`
	Sig     string            `json:"sig"`
	Kind    string            `json:"kind"` // assert | panic | deadlock | race
	Inputs  []ReplayInput     `json:"inputs"`
	Decs    string            `json:"decisions"`
	Sched   []int             `json:"schedule,omitempty"`
	Chooses []int64           `json:"chooses,omitempty"`
	Extra   map[string]string `json:"extra,omitempty"`
	UF      []UFEntry         `json:"uf,omitempty"`
	Params  map[string]int64  `json:"params,omitempty"`
	Site    string            `json:"site,omitempty"`
}

type UFEntry struct {
	Name string   `json:"name"`
	Args []uint64 `json:"args"`
	V    uint64   `json:"v"`
}

type ReplayInput struct {
	Name string `json:"name"`
	W    int    `json:"w"`
	V    uint64 `json:"v"`
}

type Run struct {
	w       *Worker
	prefix  []Dec
	trace   []Dec
	pc      []*Term
	pcSet   map[*Term]bool
	model   *Model
	modelOK bool
	inputs  []inputRec
	nInstr  int64
	nDecs   int
	covers  map[string]int
	obs     []obsRec
	obsStr  []string
	raceObjs []*Obj
	witness *Witness
	pendingUF []UFEntry
	viols   []*Violation
	undo    []undoRec
	mundo   []mapUndo
	sched   *Sched
	chooses []int64
	inputSeq int
	asserts int // assertions reached with non-constant condition
	assertsTotal int
	stubs   map[string]bool
	ufApps  []*Term
}

type undoRec struct {
	o   *Obj
	off int
	old Value
}

func (r *Run) ctx() *TermCtx { return r.w.ctx }

func (r *Run) unsupported(format string, a ...interface{}) {
	panic(abortRun{"unsupported: " + fmt.Sprintf(format, a...)})
}

func (r *Run) assertPC(t *Term) {
	if t.IsTrue() {
		return
	}
	r.pc = append(r.pc, t)
	r.pcSet[t] = true
	r.w.solver.Assert(t)
	if t.op == OBAnd { // record conjuncts as known facts too
		for _, a := range t.a {
			r.pcSet[a] = true
		}
	}
}

// known reports whether t is syntactically implied (true) or refuted (false) by the path condition.
func (r *Run) known(t *Term) (val bool, ok bool) {
	if t.IsTrue() {
		return true, true
	}
	if t.IsFalse() {
		return false, true
	}
	if r.pcSet[t] {
		return true, true
	}
	if t.op == OBNot {
		if r.pcSet[t.a[0]] {
			return false, true
		}
	} else if r.pcSet[r.ctx().Not(t)] {
		return false, true
	}
	return false, false
}

func (r *Run) inputTerms() []*Term {
	ts := make([]*Term, 0, len(r.inputs))
	for _, in := range r.inputs {
		ts = append(ts, in.T)
	}
	return ts
}

// query decides PC ∧ extra.  On sat with wantModel, installs the model.
func (r *Run) query(extra *Term, install bool) Res {
	s := r.w.solver
	var want []*Term
	if install {
		want = r.inputTerms()
		for _, u := range r.ufApps {
			want = append(want, u)
			want = append(want, u.a...)
		}
	}
	res, vals := s.CheckWith(extra, want)
	r.w.nQueries++
	if res == Unknown {
		res = r.w.fallbackQuery(r, extra)
		if res == Unknown {
			panic(abortRun{"solver returned unknown"})
		}
		if res == Sat && install {
			install = false // no model from the fallback
		}
	}
	if res == Sat && install {
		m := NewModel()
		for t, v := range vals {
			m.vals[t] = v
		}
		r.model = m
		r.modelOK = true
		r.pendingUF = nil
		for _, u := range r.ufApps {
			e := UFEntry{Name: u.name, V: vals[u]}
			for _, a := range u.a {
				e.Args = append(e.Args, vals[a])
			}
			r.pendingUF = append(r.pendingUF, e)
		}
	}
	return res
}

// modelEval evaluates t under the current model if the model is valid for the PC.
func (r *Run) modelEval(t *Term) (uint64, bool) {
	if !r.modelOK {
		return 0, false
	}
	return r.model.Eval(t)
}

func (r *Run) forced() (Dec, bool) {
	if len(r.trace) < len(r.prefix) {
		return r.prefix[len(r.trace)], true
	}
	return Dec{}, false
}

func (r *Run) record(d Dec) {
	r.trace = append(r.trace, d)
	r.nDecs++
	if r.nDecs > r.w.ex.cfg.MaxDecisions {
		panic(abortRun{fmt.Sprintf("decision budget exceeded (%d)", r.w.ex.cfg.MaxDecisions)})
	}
}

func (r *Run) queueAlt(d Dec) {
	alt := make([]Dec, len(r.trace)+1)
	copy(alt, r.trace)
	alt[len(r.trace)] = d
	r.w.ex.push(alt)
}

// Branch decides a boolean condition, forking if both sides are feasible.
func (r *Run) Branch(c *Term) bool {
	if v, ok := r.known(c); ok {
		return v
	}
	nc := r.ctx().Not(c)
	if d, ok := r.forced(); ok {
		if d.K != 'b' {
			panic(engineErr{fmt.Sprintf("determinism: forced %v at a branch (pos %d)", d, len(r.trace))})
		}
		side := d.V != 0
		if v, ok := r.modelEval(c); !ok || (v != 0) != side {
			r.modelOK = false
		}
		r.record(d)
		if side {
			r.assertPC(c)
		} else {
			r.assertPC(nc)
		}
		return side
	}
	var side bool
	if v, ok := r.modelEval(c); ok {
		side = v != 0
		other := nc
		if !side {
			other = c
		}
		if r.query(other, false) == Sat {
			r.queueAlt(Dec{'b', b2i(!side)})
		}
	} else {
		rt := r.query(c, true)
		if rt == Sat {
			side = true
			if r.query(nc, false) == Sat {
				r.queueAlt(Dec{'b', 0})
			}
		} else {
			// PC is satisfiable by construction, so ¬c must be feasible; the model (if any) stays as it was
			side = false
			if r.modelOK {
				// the old model satisfies PC, and PC ∧ c is unsat, hence it satisfies ¬c
			}
		}
	}
	r.record(Dec{'b', b2i(side)})
	if side {
		r.assertPC(c)
	} else {
		r.assertPC(nc)
	}
	return side
}

func b2i(b bool) int64 {
	if b {
		return 1
	}
	return 0
}

// Concretize forks on the feasible values of t (at most max of them) and returns the chosen one.
func (r *Run) Concretize(t *Term, max int, what string) uint64 {
	if t.op == OConst {
		return t.c
	}
	c := r.ctx()
	if d, ok := r.forced(); ok {
		if d.K != 'c' {
			panic(engineErr{fmt.Sprintf("determinism: forced %v at a concretisation (pos %d, %s)", d, len(r.trace), what)})
		}
		v := uint64(d.V)
		if mv, ok := r.modelEval(t); !ok || mv != v {
			r.modelOK = false
		}
		r.record(d)
		r.assertPC(c.Eq(t, c.Const(t.w, v)))
		return v
	}
	var vals []uint64
	s := r.w.solver
	first, haveFirst := r.modelEval(t)
	s.Push()
	if haveFirst {
		vals = append(vals, first)
		s.Assert(c.Not(c.Eq(t, c.Const(t.w, first))))
	}
	for {
		res := s.Check()
		r.w.nQueries++
		if res == Unknown {
			s.Pop()
			panic(abortRun{"solver returned unknown (concretise " + what + ")"})
		}
		if res == Unsat {
			break
		}
		m := s.Values([]*Term{t})
		v, ok := m[t]
		if !ok {
			s.Pop()
			panic(engineErr{"concretise: no model value"})
		}
		vals = append(vals, v)
		if len(vals) > max {
			s.Pop()
			panic(abortRun{fmt.Sprintf("bound exceeded: more than %d feasible values for %s", max, what)})
		}
		s.Assert(c.Not(c.Eq(t, c.Const(t.w, v))))
	}
	s.Pop()
	if len(vals) == 0 {
		panic(engineErr{"concretise: PC infeasible"})
	}
	rest := append([]uint64(nil), vals[1:]...)
	sort.Slice(rest, func(i, j int) bool { return rest[i] < rest[j] })
	// queue in reverse so that the smallest is explored next (LIFO stack)
	for i := len(rest) - 1; i >= 0; i-- {
		r.queueAlt(Dec{'c', int64(rest[i])})
	}
	v := vals[0]
	r.record(Dec{'c', int64(v)})
	if len(vals) > 1 {
		if !haveFirst {
			r.modelOK = false
		}
		r.assertPC(c.Eq(t, c.Const(t.w, v)))
	} else {
		// single feasible value: t == v is implied; record as known fact without a solver assert
		r.pcSet[c.Eq(t, c.Const(t.w, v))] = true
	}
	return v
}

// Choose is an enumerated n-way choice (no solver involved).
func (r *Run) Choose(n int, kind byte) int {
	if n <= 0 {
		panic(engineErr{"Choose(0)"})
	}
	if n == 1 && kind != 'h' {
		return 0
	}
	if d, ok := r.forced(); ok {
		if d.K != kind {
			panic(engineErr{fmt.Sprintf("determinism: forced %v at a choice of kind %c (pos %d)", d, kind, len(r.trace))})
		}
		r.record(d)
		return int(d.V)
	}
	for i := n - 1; i >= 1; i-- {
		r.queueAlt(Dec{kind, int64(i)})
	}
	r.record(Dec{kind, 0})
	return 0
}

// ChooseFrom is Choose over an explicit list of payloads (e.g. goroutine ids).
func (r *Run) ChooseFrom(vals []int, kind byte) int {
	if len(vals) == 1 {
		return vals[0]
	}
	if d, ok := r.forced(); ok {
		if d.K != kind {
			panic(engineErr{fmt.Sprintf("determinism: forced %v at a choice of kind %c (pos %d)", d, kind, len(r.trace))})
		}
		r.record(d)
		return int(d.V)
	}
	for i := len(vals) - 1; i >= 1; i-- {
		r.queueAlt(Dec{kind, int64(vals[i])})
	}
	r.record(Dec{kind, int64(vals[0])})
	return vals[0]
}

func (r *Run) NewInput(name string, w int) *Term {
	nm := fmt.Sprintf("in%d_%s_w%d", r.inputSeq, sanitize(name), w)
	r.inputSeq++
	t := r.ctx().Var(nm, w)
	r.inputs = append(r.inputs, inputRec{name, t})
	return t
}

func sanitize(s string) string {
	b := []byte(s)
	for i, ch := range b {
		if !(ch >= 'a' && ch <= 'z' || ch >= 'A' && ch <= 'Z' || ch >= '0' && ch <= '9' || ch == '_') {
			b[i] = '_'
		}
	}
	return string(b)
}

// Assume constrains the path; an infeasible assumption ends the path silently.
func (r *Run) Assume(c *Term) {
	if v, ok := r.known(c); ok {
		if !v {
			panic(pathEnd{"assume false"})
		}
		return
	}
	if v, ok := r.modelEval(c); ok && v != 0 {
		r.assertPC(c)
		return
	}
	if r.query(c, true) != Sat {
		panic(pathEnd{"assume infeasible"})
	}
	r.assertPC(c)
}

// Assert checks the property on this path.
func (r *Run) Assert(c *Term, msg, sig string) {
	r.assertsTotal++
	if v, ok := r.known(c); ok {
		if !v {
			r.violation("assert", msg, sig)
			panic(pathEnd{"assert failed (constant)"})
		}
		return
	}
	r.asserts++
	nc := r.ctx().Not(c)
	if v, ok := r.modelEval(c); ok && v == 0 {
		// current model already violates
		r.violationModel("assert", msg, sig, r.model)
	} else {
		if r.query(nc, true) == Sat {
			r.violationModel("assert", msg, sig, r.model)
			r.modelOK = false // the model satisfies ¬c, not the continuing path
		} else {
			r.pcSet[c] = true
			return
		}
	}
	// continue under c if possible so that later assertions on this path are still examined
	r.modelOK = false
	if r.query(c, true) != Sat {
		panic(pathEnd{"assert failed on every input of the path"})
	}
	r.assertPC(c)
}

func (r *Run) violation(kind, msg, sig string) {
	// need some model of the PC
	if !r.modelOK {
		if r.query(r.ctx().True, true) != Sat {
			panic(engineErr{"violation on an infeasible path"})
		}
	}
	r.violationModel(kind, msg, sig, r.model)
}

func (r *Run) violationModel(kind, msg, sig string, m *Model) {
	v := &Violation{Harness: r.w.ex.harnessName, Msg: msg, Sig: sig, Kind: kind}
	if m != nil {
		for _, in := range r.inputs {
			val, _ := m.Eval(in.T)
			v.Inputs = append(v.Inputs, ReplayInput{in.Name, in.T.w, val})
		}
	}
	for _, d := range r.trace {
		v.Decs += d.String() + " "
	}
	v.Chooses = append([]int64(nil), r.chooses...)
	v.Params = r.w.ex.cfg.Params
	v.UF = r.pendingUF
	r.pendingUF = nil
	if r.sched != nil {
		v.Sched = append([]int(nil), r.sched.history...)
	}
	r.viols = append(r.viols, v)
}

// fallbackQuery re-decides PC ∧ extra with one-shot solver processes when the incremental session said unknown.
func (w *Worker) fallbackQuery(r *Run, extra *Term) Res {
	return Unknown
}

// makeWitness records, for a completed path, concrete inputs (a model of the path condition) and the
// observable log evaluated under that model, for native cross-validation of the translator.
func (r *Run) makeWitness() {
	s := r.w.solver
	want := r.inputTerms()
	for _, o := range r.obs {
		want = append(want, o.t)
	}
	for _, u := range r.ufApps {
		want = append(want, u)
		want = append(want, u.a...)
	}
	for _, t := range want {
		s.define(t)
	}
	res, vals := s.CheckWith(r.ctx().True, want)
	r.w.nQueries++
	if res != Sat {
		return
	}
	w := &Witness{Chooses: append([]int64(nil), r.chooses...)}
	for _, in := range r.inputs {
		w.Inputs = append(w.Inputs, ReplayInput{in.Name, in.T.w, vals[in.T]})
	}
	for _, o := range r.obs {
		v, ok := vals[o.t]
		if !ok {
			return
		}
		w.Obs = append(w.Obs, fmt.Sprintf("%s=%d", o.label, v))
	}
	for _, u := range r.ufApps {
		e := UFEntry{Name: u.name, V: vals[u]}
		for _, a := range u.a {
			e.Args = append(e.Args, vals[a])
		}
		w.UF = append(w.UF, e)
	}
	w.Decs = decsString(r.trace, 200)
	w.Params = r.w.ex.cfg.Params
	r.witness = w
}
