package main

import (
	"fmt"
	"os"
	"os/exec"
	"strings"
	"time"
	"sort"
)

// Branch decides a boolean condition, forking if both sides are feasible.
func (r *Run) Branch(c *Term) bool {
	if v, ok := r.known(c); ok {
		return v
	}
	nc := r.ctx().Not(c)
	if d, ok := r.forced(); ok {
		if d.K != 'b' {
			panic(engineErr{fmt.Sprintf("determinism: forced %v at a branch (pos %d)", d, len(r.trace))})
		}
		side := d.V != 0
		r.record(d)
		if side {
			r.assertPC(c)
		} else {
			r.assertPC(nc)
		}
		return side
	}
	var side bool
	dbg := debugPfx != "" && decsString(r.trace, 100000) == debugPfx
	if dbg {
		v, ok := r.modelEval(c)
		fmt.Fprintf(os.Stderr, "DBG at prefix: cond t%d modelEval=%v,%v q(c)=%v q(nc)=%v vars=%v\n", c.id, v, ok, r.query(c, false), r.query(nc, false), r.ctx().VarsOf(c))
		fmt.Fprintf(os.Stderr, "   cond = %s\n", c.Deep(6))
		for _, root := range r.rootsOf(c) {
			fmt.Fprintf(os.Stderr, "   group %d valid=%v nconj=%d\n", root, r.groupValid[root], len(r.groupConj[root]))
			for _, t := range r.groupConj[root] {
				ev, eok := r.model.Eval(t)
				fmt.Fprintf(os.Stderr, "      conj t%d eval=%v,%v %s\n", t.id, ev, eok, t.Deep(6))
			}
		}
	}
	if v, ok := r.modelEval(c); ok {
		side = v != 0
		other := nc
		if !side {
			other = c
		}
		if r.query(other, false) == Sat {
			r.queueAlt(Dec{'b', b2i(!side)})
		}
	} else {
		if r.query(c, true) == Sat {
			side = true
			if r.query(nc, false) == Sat {
				r.queueAlt(Dec{'b', 0})
			}
		} else {
			// PC is satisfiable by construction, so ¬c is feasible
			side = false
		}
	}
	r.record(Dec{'b', b2i(side)})
	if side {
		r.assertPC(c)
	} else {
		r.assertPC(nc)
	}
	return side
}

// Concretize forks on the feasible values of t (at most max of them) and returns the chosen one.
func (r *Run) Concretize(t *Term, max int, what string) uint64 {
	if t.op == OConst {
		return t.c
	}
	c := r.ctx()
	if d, ok := r.forced(); ok {
		if d.K != 'c' {
			panic(engineErr{fmt.Sprintf("determinism: forced %v at a concretisation (pos %d, %s)", d, len(r.trace), what)})
		}
		v := uint64(d.V)
		r.record(d)
		r.assertPC(c.Eq(t, c.Const(t.w, v)))
		return v
	}
	var vals []uint64
	excl := c.groupProbe(t)
	if first, ok := r.modelEval(t); ok {
		vals = append(vals, first)
		excl = c.Not(c.Eq(t, c.Const(t.w, first)))
	}
	for {
		if r.query(excl, true) != Sat {
			break
		}
		v, ok := r.modelEval(t)
		if !ok {
			// UF-dependent term: ask the solver directly
			v, ok = r.solverValue(excl, t)
			if !ok {
				panic(abortRun{"cannot obtain a model value while concretising " + what})
			}
		}
		vals = append(vals, v)
		if len(vals) > max {
			panic(abortRun{fmt.Sprintf("bound exceeded: more than %d feasible values for %s", max, what)})
		}
		excl = c.And(excl, c.Not(c.Eq(t, c.Const(t.w, v))))
	}
	if len(vals) == 0 {
		panic(engineErr{"concretise: PC infeasible"})
	}
	sort.Slice(vals, func(i, j int) bool { return vals[i] < vals[j] })
	// queue in reverse so that the smallest is explored next (LIFO stack)
	for i := len(vals) - 1; i >= 1; i-- {
		r.queueAlt(Dec{'c', int64(vals[i])})
	}
	v := vals[0]
	r.record(Dec{'c', int64(v)})
	r.assertPC(c.Eq(t, c.Const(t.w, v)))
	return v
}

// anyVar returns some variable below t (t is not constant, so one exists unless t is UF-only).
func (r *Run) anyVar(t *Term) *Term {
	for _, id := range r.ctx().VarsOf(t) {
		if v := r.ctx().varByID[id]; v != nil {
			return v
		}
	}
	// UF applied to constants only: use a fresh dummy variable
	return r.ctx().Var("dummy_probe", 1)
}

// solverValue returns a model value of t under PC ∧ extra (used when t cannot be evaluated in Go).
func (r *Run) solverValue(extra, t *Term) (uint64, bool) {
	s := r.w.solver
	s.Push()
	defer s.Pop()
	for _, t := range r.pc {
		s.Assert(t)
	}
	s.Assert(extra)
	s.define(t)
	r.w.nQueries++
	if s.Check() != Sat {
		return 0, false
	}
	m := s.Values([]*Term{t})
	v, ok := m[t]
	return v, ok
}

// Assume constrains the path; an infeasible assumption ends the path silently.
func (r *Run) Assume(c *Term) {
	if v, ok := r.known(c); ok {
		if !v {
			panic(pathEnd{"assume false"})
		}
		return
	}
	if v, ok := r.modelEval(c); ok && v != 0 {
		r.assertPC(c)
		return
	}
	if r.query(c, true) != Sat {
		panic(pathEnd{"assume infeasible"})
	}
	r.assertPC(c)
}

// Assert checks the property on this path.
func (r *Run) Assert(c *Term, msg, sig string) {
	r.assertsTotal++
	if v, ok := r.known(c); ok {
		if !v {
			r.violation("assert", msg, sig)
			panic(pathEnd{"assert failed (constant)"})
		}
		return
	}
	r.asserts++
	nc := r.ctx().Not(c)
	violated := false
	if v, ok := r.modelEval(c); ok && v == 0 {
		violated = true
	} else {
		// ¬(c1 ∧ … ∧ cn) is satisfiable iff some ¬ci is: decide the conjuncts one by one; each query
		// then only involves the independent slice of that conjunct (small and cacheable)
		for _, ci := range flattenAnd(c, 512) {
			if v, ok := r.known(ci); ok && v {
				continue
			}
			if r.query(r.ctx().Not(ci), true) == Sat {
				violated = true
				nc = r.ctx().Not(ci)
				break
			}
		}
	}
	if !violated {
		r.pcSet[c] = true
		return
	}
	r.violationWith(nc, "assert", msg, sig)
	// continue under c if possible so that later assertions on this path are still examined
	if r.query(c, true) != Sat {
		panic(pathEnd{"assert failed on every input of the path"})
	}
	r.assertPC(c)
}

// violation records a violation that holds for every input of the path (panic, deadlock, constant assert).
func (r *Run) violation(kind, msg, sig string) {
	r.violationWith(r.ctx().True, kind, msg, sig)
}

func (r *Run) allRoots() []int {
	roots := map[int]bool{}
	for v := range r.ufParent {
		roots[r.find(v)] = true
	}
	var rs []int
	for root := range roots {
		rs = append(rs, root)
	}
	sort.Ints(rs)
	return rs
}

// violationWith records a violation whose witness must additionally satisfy extra.
func (r *Run) violationWith(extra *Term, kind, msg, sig string) {
	touched := map[int]bool{}
	if !extra.IsTrue() {
		if v, ok := r.modelEval(extra); !ok || v == 0 {
			if r.query(extra, true) != Sat {
				panic(engineErr{"violation witness infeasible"})
			}
		}
		for _, root := range r.rootsOf(extra) {
			touched[root] = true
		}
	}
	for _, root := range r.allRoots() {
		if touched[root] || r.groupValid[root] {
			continue
		}
		v := r.firstVar(root)
		if v == nil {
			continue
		}
		if r.query(r.ctx().groupProbe(v), true) != Sat {
			panic(engineErr{"violation on an infeasible path"})
		}
	}
	r.violationModel(kind, msg, sig, r.model)
	if !extra.IsTrue() {
		// extra is not part of the continuing path: its groups are no longer known valid
		for _, root := range r.rootsOf(extra) {
			r.groupValid[root] = false
		}
	}
}

func (r *Run) firstVar(root int) *Term {
	for _, id := range r.groupVars[root] {
		if v := r.ctx().varByID[id]; v != nil {
			return v
		}
	}
	return nil
}

func (r *Run) violationModel(kind, msg, sig string, m *Model) {
	v := &Violation{Harness: r.w.ex.harnessName, Msg: msg, Sig: sig, Kind: kind}
	if m != nil {
		for _, in := range r.inputs {
			val, _ := m.Eval(in.T)
			v.Inputs = append(v.Inputs, ReplayInput{in.Name, in.T.w, val})
		}
	}
	for _, d := range r.trace {
		v.Decs += d.String() + " "
	}
	v.Chooses = append([]int64(nil), r.chooses...)
	v.Params = r.w.ex.cfg.Params
	v.UF = r.pendingUF
	r.pendingUF = nil
	if r.sched != nil {
		v.Sched = append([]int(nil), r.sched.history...)
	}
	r.viols = append(r.viols, v)
}

// fullModel makes every group valid (solving the invalid ones) and returns a model of the whole PC.
func (r *Run) fullModel() *Model {
	for _, root := range r.allRoots() {
		if r.groupValid[root] {
			continue
		}
		v := r.firstVar(root)
		if v == nil {
			continue
		}
		if r.query(r.ctx().groupProbe(v), true) != Sat {
			panic(engineErr{"fullModel: path condition infeasible"})
		}
	}
	return r.model
}

func (r *Run) fullModelSafe() (ok bool) {
	defer func() {
		if recover() != nil {
			ok = false
		}
	}()
	r.fullModel()
	return true
}

// makeWitness records, for a completed path, concrete inputs (a model of the path condition) and the
// observable log evaluated under that model, for native cross-validation of the translator.
func (r *Run) makeWitness() {
	s := r.w.solver
	want := r.inputTerms()
	for _, o := range r.obs {
		want = append(want, o.t)
	}
	for _, u := range r.ufApps {
		want = append(want, u)
		want = append(want, u.a...)
	}
	s.Push()
	defer s.Pop()
	for _, t := range r.pc {
		s.Assert(t)
	}
	for _, t := range want {
		s.define(t)
	}
	r.w.nQueries++
	if s.Check() != Sat {
		return
	}
	vals := s.Values(want)
	w := &Witness{Chooses: append([]int64(nil), r.chooses...)}
	for _, in := range r.inputs {
		w.Inputs = append(w.Inputs, ReplayInput{in.Name, in.T.w, vals[in.T]})
	}
	for _, o := range r.obs {
		v, ok := vals[o.t]
		if !ok {
			return
		}
		w.Obs = append(w.Obs, fmt.Sprintf("%s=%d", o.label, v))
	}
	for _, u := range r.ufApps {
		e := UFEntry{Name: u.name, V: vals[u]}
		for _, a := range u.a {
			e.Args = append(e.Args, vals[a])
		}
		w.UF = append(w.UF, e)
	}
	w.Decs = decsString(r.trace, 200)
	w.Params = r.w.ex.cfg.Params
	r.witness = w
}

// fallbackQuery re-decides conj ∧ extra with one-shot solver processes (different strategies: the
// non-incremental z3 front end picks the bit-blasting tactic) when the incremental session said unknown.
func (w *Worker) fallbackQuery(r *Run, conj []*Term, extra *Term, vars []*Term) (Res, []uint64) {
	t0 := time.Now()
	defer func() { w.fbDur += time.Since(t0) }()
	w.fallbacks++
	script := w.standaloneScript(append(append([]*Term(nil), conj...), extra))
	if len(vars) > 0 {
		var sb strings.Builder
		sb.WriteString("(get-value (")
		for _, v := range vars {
			if v != nil {
				sb.WriteString(v.name + " ")
			}
		}
		sb.WriteString("))\n")
		script = "(set-option :produce-models true)\n" + script + sb.String()
	}
	type ans struct {
		res Res
		who string
		out string
	}
	cmds := [][]string{
		{"/usr/local/bin/z3-new", "-smt2", "-in", fmt.Sprintf("-T:%d", w.ex.cfg.FallbackTimeoutS)},
		{"/usr/bin/z3", "-smt2", "-in", fmt.Sprintf("-T:%d", w.ex.cfg.FallbackTimeoutS)},
	}
	ch := make(chan ans, len(cmds))
	var procs []*exec.Cmd
	for _, c := range cmds {
		cmd := exec.Command(c[0], c[1:]...)
		cmd.Stdin = strings.NewReader(script)
		procs = append(procs, cmd)
		go func(cmd *exec.Cmd, who string) {
			out, _ := cmd.Output()
			s := strings.TrimSpace(string(out))
			switch {
			case strings.HasPrefix(s, "unsat"):
				ch <- ans{Unsat, who, s}
			case strings.HasPrefix(s, "sat"):
				ch <- ans{Sat, who, s}
			default:
				ch <- ans{Unknown, who, s}
			}
		}(cmd, c[0])
	}
	res := Unknown
	var vals []uint64
	for range cmds {
		a := <-ch
		if a.res != Unknown {
			res = a.res
			if res == Sat && len(vars) > 0 {
				if i := strings.Index(a.out, "("); i >= 0 {
					got := parseValues(a.out[i:])
					// values come back for the non-nil variables in order
					k := 0
					vals = make([]uint64, len(vars))
					okAll := true
					for j, v := range vars {
						if v == nil {
							continue
						}
						if k < len(got) {
							vals[j] = got[k]
						} else {
							okAll = false
						}
						k++
					}
					if !okAll {
						vals = nil
					}
				}
			}
			break
		}
	}
	for _, p := range procs {
		if p.Process != nil {
			p.Process.Kill()
		}
	}
	return res, vals
}

// standaloneScript renders a self-contained SMT-LIB script deciding the conjunction of ts.
func (w *Worker) standaloneScript(ts []*Term) string {
	var sb strings.Builder
	seen := map[*Term]bool{}
	ufSeen := map[string]bool{}
	tmp := &Solver{ctx: w.ctx}
	var emit func(t *Term)
	emit = func(t *Term) {
		if seen[t] || t.op == OConst {
			return
		}
		seen[t] = true
		for _, a := range t.a {
			emit(a)
		}
		switch t.op {
		case OVar:
			sb.WriteString("(declare-const " + t.name + " " + sortSMT(t.w) + ")\n")
			return
		case OUF:
			if !ufSeen[t.name] {
				ufSeen[t.name] = true
				d := w.ctx.ufs[t.name]
				sb.WriteString("(declare-fun uf_" + d.name + " (")
				for _, aw := range d.argW {
					sb.WriteString(sortSMT(aw) + " ")
				}
				sb.WriteString(") " + sortSMT(d.resW) + ")\n")
			}
		}
		sb.WriteString(tmp.defString(t) + "\n")
	}
	for _, t := range ts {
		emit(t)
		sb.WriteString("(assert " + tmp.ref(t) + ")\n")
	}
	sb.WriteString("(check-sat)\n")
	return sb.String()
}

// flattenAnd returns the conjuncts of an and-tree (at most max of them; a larger tree is returned whole).
func flattenAnd(c *Term, max int) []*Term {
	var out []*Term
	var walk func(t *Term) bool
	walk = func(t *Term) bool {
		if t.op == OBAnd {
			return walk(t.a[0]) && walk(t.a[1])
		}
		out = append(out, t)
		return len(out) <= max
	}
	if !walk(c) {
		return []*Term{c}
	}
	return out
}
var debugPfx = os.Getenv("GOSYM_TRACEPFX")
