package main

// Intrinsics and stubs at standard-library boundaries.

import (
	"fmt"
	"go/token"
	"go/types"

	"golang.org/x/tools/go/ssa"
)

func argT(fn *ssa.Function, i int) types.Type { return fn.Signature.Params().At(i).Type() }

// redirects: standard-library functions replaced by Go-level models in vh/vstub (executed symbolically)
var redirects = map[string]string{
	"crypto/md5.New": "NewMD5", "crypto/sha1.New": "NewSHA1", "crypto/sha256.New": "NewSHA256", "crypto/sha256.New224": "NewSHA224",
	"crypto/sha512.New": "NewSHA512", "crypto/sha512.New384": "NewSHA384", "crypto/sha512.New512_224": "NewSHA512_224", "crypto/sha512.New512_256": "NewSHA512_256",
	"crypto/md5.Sum": "SumMD5", "crypto/sha1.Sum": "SumSHA1", "crypto/sha256.Sum256": "SumSHA256", "crypto/sha256.Sum224": "SumSHA224",
	"crypto/sha512.Sum512": "SumSHA512", "crypto/sha512.Sum384": "SumSHA384", "crypto/sha512.Sum512_224": "SumSHA512_224", "crypto/sha512.Sum512_256": "SumSHA512_256",
	"crypto/hmac.New": "NewHMAC", "net.IPv4": "IPv4", "(net.IP).String": "IPString",
	"crypto/aes.NewCipher": "NewCipher", "crypto/cipher.NewGCMWithNonceSize": "NewGCMWithNonceSize", "crypto/cipher.NewGCM": "NewGCM", "crypto/cipher.NewCTR": "NewCTR",
}

func registerStdIntrinsics(m map[string]intrinsic) {
	for from, to := range redirects {
		to := to
		from := from
		m[from] = func(r *Run, caller *frame, fn *ssa.Function, args []Value) Value {
			f := r.w.ex.stdFunc("vh/vstub", to)
			if f == nil {
				r.unsupported("vh/vstub.%s not loaded", to)
			}
			r.stubs[from+" -> vh/vstub."+to] = true
			return r.callSSA(caller, f, args, nil)
		}
	}
	catBytes := func(r *Run, bs []*Term) *Term {
		t := bs[0]
		for _, b := range bs[1:] {
			t = r.ctx().Concat(t, b)
		}
		return t
	}
	splitBytes := func(r *Run, t *Term, label string) Value {
		n := t.w / 8
		o := r.allocArray(types.Typ[types.Uint8], n, label)
		for i := 0; i < n; i++ {
			hi := (n-i)*8 - 1
			o.cells[i] = r.ctx().Extract(t, hi, hi-7)
		}
		return Slice{obj: o, len: n, cap: n}
	}
	m["vh/vstub.BlockUF"] = func(r *Run, caller *frame, fn *ssa.Function, args []Value) Value {
		dir := int(r.Concretize(r.termOf(args[0], "block dir"), 2, "block dir"))
		key := catBytes(r, r.sliceBytes(args[1].(Slice)))
		src := catBytes(r, r.sliceBytes(args[2].(Slice)))
		r.stubs["AES block as an uninterpreted keyed permutation (D_k(E_k(x)) = x)"] = true
		names := [2]string{fmt.Sprintf("aesE%d", key.w), fmt.Sprintf("aesD%d", key.w)}
		// inverse on syntactic match
		if src.op == OUF && src.name == names[1-dir] && src.a[0] == key {
			return splitBytes(r, src.a[1], "aes-inverse")
		}
		return splitBytes(r, r.ctx().UF(names[dir], 128, key, src), "aes-block")
	}
	m["vh/vstub.SealUF"] = func(r *Run, caller *frame, fn *ssa.Function, args []Value) Value {
		r.stubs["AES-GCM Seal as an uninterpreted function of (key, nonce, plaintext, aad)"] = true
		key, nonce := r.sliceBytes(args[0].(Slice)), r.sliceBytes(args[1].(Slice))
		pt, aad := r.sliceBytes(args[2].(Slice)), r.sliceBytes(args[3].(Slice))
		ts := []*Term{catBytes(r, key), catBytes(r, nonce)}
		if len(pt) > 0 {
			ts = append(ts, catBytes(r, pt))
		}
		if len(aad) > 0 {
			ts = append(ts, catBytes(r, aad))
		}
		name := fmt.Sprintf("gcm_%d_%d_%d_%d", len(key), len(nonce), len(pt), len(aad))
		return splitBytes(r, r.ctx().UF(name, (len(pt)+16)*8, ts...), "gcm-seal")
	}
	m["vh/vstub.OpenMatch"] = func(r *Run, caller *frame, fn *ssa.Function, args []Value) Value {
		r.stubs["AES-GCM Open succeeds exactly on the output of a Seal with the same key, nonce and aad (authenticity assumed)"] = true
		key, nonce := r.sliceBytes(args[0].(Slice)), r.sliceBytes(args[1].(Slice))
		ct, aad := r.sliceBytes(args[2].(Slice)), r.sliceBytes(args[3].(Slice))
		c := catBytes(r, ct)
		fail := Tuple{Slice{}, r.ctx().False}
		pl := len(ct) - 16
		if c.op != OUF || c.name != fmt.Sprintf("gcm_%d_%d_%d_%d", len(key), len(nonce), pl, len(aad)) {
			return fail
		}
		if c.a[0] != catBytes(r, key) || c.a[1] != catBytes(r, nonce) {
			return fail
		}
		idx := 2
		var ptT *Term
		if pl > 0 {
			ptT = c.a[idx]
			idx++
		}
		if len(aad) > 0 && c.a[idx] != catBytes(r, aad) {
			return fail
		}
		if ptT == nil {
			o := r.allocArray(types.Typ[types.Uint8], 0, "gcm-open")
			return Tuple{Slice{obj: o}, r.ctx().True}
		}
		return Tuple{splitBytes(r, ptT, "gcm-open"), r.ctx().True}
	}
	m["vh/vstub.KeystreamUF"] = func(r *Run, caller *frame, fn *ssa.Function, args []Value) Value {
		r.stubs["AES-CTR keystream as an uninterpreted function of (key, iv, position)"] = true
		key := catBytes(r, r.sliceBytes(args[0].(Slice)))
		iv := catBytes(r, r.sliceBytes(args[1].(Slice)))
		pos := r.termOf(args[2], "keystream pos")
		return r.ctx().UF(fmt.Sprintf("ctr%d", key.w), 8, key, iv, pos)
	}
	m["crypto/subtle.XORBytes"] = func(r *Run, caller *frame, fn *ssa.Function, args []Value) Value {
		dst, x, y := args[0].(Slice), args[1].(Slice), args[2].(Slice)
		n := x.len
		if y.len < n {
			n = y.len
		}
		if n == 0 {
			return r.ctx().Const(64, 0)
		}
		if dst.len < n {
			r.goPanicRuntimeStr("subtle.XORBytes: dst too short")
		}
		xb, yb := r.sliceBytes(Slice{x.obj, x.off, n, n}), r.sliceBytes(Slice{y.obj, y.off, n, n})
		for i := 0; i < n; i++ {
			r.storeCell(Ptr{obj: dst.obj, off: dst.off}, i, r.ctx().Bin(OXor, xb[i], yb[i]))
		}
		return r.ctx().Const(64, uint64(n))
	}
	overlap := func(inexact bool) intrinsic {
		return func(r *Run, caller *frame, fn *ssa.Function, args []Value) Value {
			a, b := args[0].(Slice), args[1].(Slice)
			if a.len == 0 || b.len == 0 || a.obj != b.obj {
				return r.ctx().False
			}
			any := a.off < b.off+b.len && b.off < a.off+a.len
			if inexact {
				return r.ctx().Bool(any && a.off != b.off)
			}
			return r.ctx().Bool(any)
		}
	}
	m["crypto/internal/alias.InexactOverlap"] = overlap(true)
	m["crypto/internal/alias.AnyOverlap"] = overlap(false)
	digestNames := []string{"", "md5", "sha1", "sha224", "sha256", "sha384", "sha512", "sha512_224", "sha512_256"}
	digestSizes := []int{0, 16, 20, 28, 32, 48, 64, 28, 32}
	m["vh/vstub.DigestUF"] = func(r *Run, caller *frame, fn *ssa.Function, args []Value) Value {
		kind := int(r.Concretize(r.termOf(args[0], "digest kind"), 16, "digest kind"))
		data := r.sliceBytes(args[1].(Slice))
		r.stubs["digest "+digestNames[kind]+" as uninterpreted function"] = true
		return r.bytesUF(fmt.Sprintf("%s_%d", digestNames[kind], len(data)), digestSizes[kind], data)
	}
	m["vh/vstub.HmacUF"] = func(r *Run, caller *frame, fn *ssa.Function, args []Value) Value {
		kind := int(r.Concretize(r.termOf(args[0], "digest kind"), 16, "digest kind"))
		key := r.sliceBytes(args[1].(Slice))
		data := r.sliceBytes(args[2].(Slice))
		r.stubs["hmac-"+digestNames[kind]+" as uninterpreted function"] = true
		return r.bytesUF(fmt.Sprintf("hmac_%s_%d_%d", digestNames[kind], len(key), len(data)), digestSizes[kind], append(append([]*Term(nil), key...), data...))
	}
	// ---- math/bits ----
	bitsFn := func(f func(c *TermCtx, x *Term) *Term) intrinsic {
		return func(r *Run, caller *frame, fn *ssa.Function, args []Value) Value {
			x := r.termOf(args[0], "math/bits")
			res := f(r.ctx(), x)
			// result type is int (64)
			return r.ctx().Zext(res, 64)
		}
	}
	for _, sfx := range []string{"", "8", "16", "32", "64"} {
		m["math/bits.Len"+sfx] = bitsFn(func(c *TermCtx, x *Term) *Term { return c.BitLen(x) })
		m["math/bits.OnesCount"+sfx] = bitsFn(func(c *TermCtx, x *Term) *Term { return c.PopCount(x) })
		m["math/bits.TrailingZeros"+sfx] = bitsFn(func(c *TermCtx, x *Term) *Term { return c.TrailingZeros(x) })
		m["math/bits.LeadingZeros"+sfx] = bitsFn(func(c *TermCtx, x *Term) *Term {
			return c.Bin(OSub, c.Const(x.w, uint64(x.w)), c.BitLen(x))
		})
	}

	// ---- sync/atomic (function API) ----
	for _, ty := range []string{"Int32", "Int64", "Uint32", "Uint64", "Uintptr", "Pointer"} {
		ty := ty
		m["sync/atomic.Load"+ty] = func(r *Run, caller *frame, fn *ssa.Function, args []Value) Value {
			return r.atomicLoad(args[0].(Ptr))
		}
		m["sync/atomic.Store"+ty] = func(r *Run, caller *frame, fn *ssa.Function, args []Value) Value {
			r.atomicStore(args[0].(Ptr), args[1])
			return nil
		}
		m["sync/atomic.Swap"+ty] = func(r *Run, caller *frame, fn *ssa.Function, args []Value) Value {
			old, _ := r.atomicRMW(args[0].(Ptr), func(Value) Value { return args[1] })
			return old
		}
		m["sync/atomic.CompareAndSwap"+ty] = func(r *Run, caller *frame, fn *ssa.Function, args []Value) Value {
			return r.atomicCAS(args[0].(Ptr), argT(fn, 1), args[1], args[2])
		}
		if ty != "Pointer" {
			m["sync/atomic.Add"+ty] = func(r *Run, caller *frame, fn *ssa.Function, args []Value) Value {
				d := r.termOf(args[1], "atomic.Add")
				_, nw := r.atomicRMW(args[0].(Ptr), func(old Value) Value { return r.ctx().Bin(OAdd, old.(*Term), d) })
				return nw
			}
			m["sync/atomic.And"+ty] = func(r *Run, caller *frame, fn *ssa.Function, args []Value) Value {
				d := r.termOf(args[1], "atomic.And")
				old, _ := r.atomicRMW(args[0].(Ptr), func(old Value) Value { return r.ctx().Bin(OAnd, old.(*Term), d) })
				return old
			}
			m["sync/atomic.Or"+ty] = func(r *Run, caller *frame, fn *ssa.Function, args []Value) Value {
				d := r.termOf(args[1], "atomic.Or")
				old, _ := r.atomicRMW(args[0].(Ptr), func(old Value) Value { return r.ctx().Bin(OOr, old.(*Term), d) })
				return old
			}
		}
	}

	// ---- sync ----
	m["(*sync.Mutex).Lock"] = func(r *Run, caller *frame, fn *ssa.Function, args []Value) Value { r.mutexLock(args[0].(Ptr)); return nil }
	m["(*sync.Mutex).Unlock"] = func(r *Run, caller *frame, fn *ssa.Function, args []Value) Value { r.mutexUnlock(args[0].(Ptr)); return nil }
	m["(*sync.Mutex).TryLock"] = func(r *Run, caller *frame, fn *ssa.Function, args []Value) Value { return r.mutexTryLock(args[0].(Ptr)) }
	m["(*sync.RWMutex).Lock"] = m["(*sync.Mutex).Lock"]
	m["(*sync.RWMutex).Unlock"] = m["(*sync.Mutex).Unlock"]
	m["(*sync.RWMutex).RLock"] = func(r *Run, caller *frame, fn *ssa.Function, args []Value) Value { r.rwRLock(args[0].(Ptr)); return nil }
	m["(*sync.RWMutex).RUnlock"] = func(r *Run, caller *frame, fn *ssa.Function, args []Value) Value { r.rwRUnlock(args[0].(Ptr)); return nil }
	m["(*sync.WaitGroup).Add"] = func(r *Run, caller *frame, fn *ssa.Function, args []Value) Value {
		r.wgAdd(args[0].(Ptr), r.termOf(args[1], "WaitGroup.Add"))
		return nil
	}
	m["(*sync.WaitGroup).Done"] = func(r *Run, caller *frame, fn *ssa.Function, args []Value) Value {
		r.wgAdd(args[0].(Ptr), r.ctx().Const(64, ^uint64(0)))
		return nil
	}
	m["(*sync.WaitGroup).Wait"] = func(r *Run, caller *frame, fn *ssa.Function, args []Value) Value { r.wgWait(args[0].(Ptr)); return nil }

	// ---- runtime ----
	m["runtime.Gosched"] = func(r *Run, caller *frame, fn *ssa.Function, args []Value) Value {
		if r.sched != nil {
			r.sched.yield()
		}
		return nil
	}
	m["runtime.Callers"] = func(r *Run, caller *frame, fn *ssa.Function, args []Value) Value { return r.ctx().Const(64, 0) }
	m["runtime.CallersFrames"] = func(r *Run, caller *frame, fn *ssa.Function, args []Value) Value {
		r.stubs["runtime.CallersFrames (empty trace)"] = true
		t := fn.Signature.Results().At(0).Type().Underlying().(*types.Pointer).Elem()
		return Ptr{obj: r.allocType(t, "runtime.Frames")}
	}
	m["(*runtime.Frames).Next"] = func(r *Run, caller *frame, fn *ssa.Function, args []Value) Value {
		return Tuple{r.w.zero(fn.Signature.Results().At(0).Type()), r.ctx().False}
	}
	m["runtime.KeepAlive"] = func(r *Run, caller *frame, fn *ssa.Function, args []Value) Value { return nil }
	m["runtime.GOMAXPROCS"] = func(r *Run, caller *frame, fn *ssa.Function, args []Value) Value { return r.ctx().Const(64, 16) }

	// ---- internal helpers ----
	m["internal/abi.NoEscape"] = func(r *Run, caller *frame, fn *ssa.Function, args []Value) Value { return args[0] }
	m["internal/bytealg.MakeNoZero"] = func(r *Run, caller *frame, fn *ssa.Function, args []Value) Value {
		n := r.concInt(args[0], types.Typ[types.Int], r.w.ex.cfg.MaxFork, "MakeNoZero")
		o := r.allocArray(types.Typ[types.Uint8], n, "MakeNoZero")
		return Slice{obj: o, len: n, cap: n}
	}
	m["internal/bytealg.IndexByteString"] = func(r *Run, caller *frame, fn *ssa.Function, args []Value) Value {
		return r.indexByte(r.strBytes(args[0].(Str)), r.termOf(args[1], "IndexByte"))
	}
	m["internal/bytealg.IndexByte"] = func(r *Run, caller *frame, fn *ssa.Function, args []Value) Value {
		return r.indexByte(r.sliceBytes(args[0].(Slice)), r.termOf(args[1], "IndexByte"))
	}
	m["internal/bytealg.CountString"] = func(r *Run, caller *frame, fn *ssa.Function, args []Value) Value {
		return r.countByte(r.strBytes(args[0].(Str)), r.termOf(args[1], "Count"))
	}
	m["internal/bytealg.Count"] = func(r *Run, caller *frame, fn *ssa.Function, args []Value) Value {
		return r.countByte(r.sliceBytes(args[0].(Slice)), r.termOf(args[1], "Count"))
	}
	m["internal/bytealg.Equal"] = func(r *Run, caller *frame, fn *ssa.Function, args []Value) Value {
		a, b := args[0].(Slice), args[1].(Slice)
		c := r.ctx()
		if a.len != b.len {
			return c.False
		}
		res := c.True
		ab, bb := r.sliceBytes(a), r.sliceBytes(b)
		for i := range ab {
			res = c.And(res, c.Eq(ab[i], bb[i]))
		}
		return res
	}
	m["internal/bytealg.Compare"] = func(r *Run, caller *frame, fn *ssa.Function, args []Value) Value {
		a, b := args[0].(Slice), args[1].(Slice)
		c := r.ctx()
		sa, sb := r.mkString(r.sliceBytes(a)), r.mkString(r.sliceBytes(b))
		lt := r.strLess(sa, sb)
		gt := r.strLess(sb, sa)
		return c.Ite(lt, c.Const(64, ^uint64(0)), c.Ite(gt, c.Const(64, 1), c.Const(64, 0)))
	}
	m["internal/race.Enabled"] = nil
	delete(m, "internal/race.Enabled")

	// ---- time ----
	m["time.Now"] = func(r *Run, caller *frame, fn *ssa.Function, args []Value) Value {
		r.stubs["time.Now"] = true
		return Agg{r.NewInput("time_wall", 64), r.NewInput("time_ext", 64), Ptr{}}
	}
	m["time.Since"] = func(r *Run, caller *frame, fn *ssa.Function, args []Value) Value {
		// the clock is an arbitrary non-decreasing count of elapsed milliseconds; the Duration value itself is
		// an opaque fresh variable whose Milliseconds() is that count (no 64-bit division by 10^6 in the solver)
		r.stubs["time.Since (arbitrary non-decreasing elapsed milliseconds)"] = true
		c := r.ctx()
		ms := r.NewInput("elapsed_ms", 64)
		r.Assume(c.Cmp(OSle, c.Const(64, 0), ms))
		r.Assume(c.Cmp(OSlt, ms, c.Const(64, 1<<62)))
		if r.lastMs != nil {
			r.Assume(c.Cmp(OSle, r.lastMs, ms))
		}
		r.lastMs = ms
		d := r.NewInput("duration", 64)
		if r.durMs == nil {
			r.durMs = map[*Term]*Term{}
		}
		r.durMs[d] = ms
		return d
	}
	m["(time.Duration).Milliseconds"] = func(r *Run, caller *frame, fn *ssa.Function, args []Value) Value {
		d := r.termOf(args[0], "Duration.Milliseconds")
		if ms, ok := r.durMs[d]; ok {
			return ms
		}
		// a Duration not produced by the clock stub: d / 1e6 as in the real method
		return r.ctx().Bin(OSDiv, d, r.ctx().Const(64, 1000000))
	}
	// ---- crypto/rand, math/big (only what randz uses) ----
	m["math/big.NewInt"] = func(r *Run, caller *frame, fn *ssa.Function, args []Value) Value {
		o := r.newObj(1, "big.Int")
		o.cells[0] = args[0]
		return Ptr{obj: o}
	}
	m["(*math/big.Int).Int64"] = func(r *Run, caller *frame, fn *ssa.Function, args []Value) Value {
		p := args[0].(Ptr)
		if p.obj == nil {
			r.nilDeref()
		}
		return p.obj.cells[0]
	}
	m["crypto/rand.Int"] = func(r *Run, caller *frame, fn *ssa.Function, args []Value) Value {
		r.stubs["crypto/rand.Int (arbitrary value in [0,max) or an error)"] = true
		c := r.ctx()
		mx := args[1].(Ptr)
		if mx.obj == nil {
			r.nilDeref()
		}
		max := r.termOf(mx.obj.cells[0], "rand.Int max")
		if r.Branch(c.Cmp(OSle, max, c.Const(64, 0))) {
			r.goPanicRuntimeStr("crypto/rand: argument to Int is <= 0")
		}
		if r.Choose(2, 'h') == 1 {
			return Tuple{Ptr{}, r.newError(r.constString("crypto/rand: entropy source failed (stub)"))}
		}
		v := r.NewInput("crand_int", 64)
		r.Assume(c.And(c.Cmp(OSle, c.Const(64, 0), v), c.Cmp(OSlt, v, max)))
		o := r.newObj(1, "big.Int")
		o.cells[0] = v
		return Tuple{Ptr{obj: o}, Iface{}}
	}
	m["vh/vstub.RandByte"] = func(r *Run, caller *frame, fn *ssa.Function, args []Value) Value {
		r.stubs["crypto/rand.Reader (arbitrary bytes)"] = true
		return r.NewInput("crand_byte", 8)
	}
	m["time.Date"] = func(r *Run, caller *frame, fn *ssa.Function, args []Value) Value {
		return Agg{r.ctx().Const(64, 0), r.ctx().Const(64, 0), Ptr{}}
	}
	m["(time.Time).UnixNano"] = func(r *Run, caller *frame, fn *ssa.Function, args []Value) Value {
		r.stubs["time.Time.UnixNano"] = true
		return r.NewInput("unixnano", 64)
	}
	m["(time.Time).Sub"] = func(r *Run, caller *frame, fn *ssa.Function, args []Value) Value {
		r.stubs["time.Time.Sub"] = true
		return r.NewInput("time_sub", 64)
	}
	m["time.After"] = func(r *Run, caller *frame, fn *ssa.Function, args []Value) Value {
		r.stubs["time.After(never fires)"] = true
		ch := r.newChan(1, fn.Signature.Results().At(0).Type().Underlying().(*types.Chan).Elem())
		ch.never = true
		return ch
	}
	m["time.Sleep"] = func(r *Run, caller *frame, fn *ssa.Function, args []Value) Value {
		if r.sched != nil {
			r.sched.yield()
		}
		return nil
	}

	// ---- math/rand ----
	m["math/rand.NewSource"] = func(r *Run, caller *frame, fn *ssa.Function, args []Value) Value {
		return Iface{} // never used directly: rand.New is stubbed as well
	}
	m["math/rand.New"] = func(r *Run, caller *frame, fn *ssa.Function, args []Value) Value {
		r.stubs["math/rand.New (symbolic outputs)"] = true
		// a real *rand.Rand object whose methods are intercepted; keep the source so that
		// harness-defined sources are honoured
		t := fn.Signature.Results().At(0).Type().Underlying().(*types.Pointer).Elem()
		o := r.allocType(t, "rand.Rand")
		if src, ok := args[0].(Iface); ok && src.t != nil {
			o.cells[0] = src
		}
		return Ptr{obj: o}
	}
	randWord := func(name string, w int, maxBits int) intrinsic {
		return func(r *Run, caller *frame, fn *ssa.Function, args []Value) Value {
			p := args[0].(Ptr)
			if p.obj == nil {
				r.nilDeref()
			}
			c := r.ctx()
			// harness-defined source?
			if src, ok := p.obj.cells[p.off].(Iface); ok && src.t != nil {
				meth := r.w.ex.sourceInt63(src.t)
				if meth != nil {
					v := r.callSSA(caller, meth, []Value{src.v}, nil).(*Term)
					switch name {
					case "Uint64":
						// as rand.Rand does without Source64: two draws
						v2 := r.callSSA(caller, meth, []Value{src.v}, nil).(*Term)
						return c.Bin(OOr, c.Bin(OShl, c.Bin(OLshr, v, c.Const(64, 31)), c.Const(64, 32)), c.Bin(OLshr, v2, c.Const(64, 31)))
					case "Int63":
						return v
					case "Uint32":
						return c.Extract(c.Bin(OLshr, v, c.Const(64, 31)), 31, 0)
					case "Int31":
						return c.Extract(c.Bin(OLshr, v, c.Const(64, 32)), 31, 0)
					}
				}
			}
			t := r.NewInput("rand_"+name, w)
			if maxBits < w {
				r.Assume(c.Cmp(OUlt, t, c.Const(w, uint64(1)<<uint(maxBits))))
			}
			return t
		}
	}
	m["(*math/rand.Rand).Uint64"] = randWord("Uint64", 64, 64)
	m["(*math/rand.Rand).Int63"] = randWord("Int63", 64, 63)
	m["(*math/rand.Rand).Uint32"] = randWord("Uint32", 32, 32)
	m["(*math/rand.Rand).Int31"] = randWord("Int31", 32, 31)
	boundedRand := func(w int) intrinsic {
		return func(r *Run, caller *frame, fn *ssa.Function, args []Value) Value {
			c := r.ctx()
			n := r.termOf(args[len(args)-1], "rand n")
			r.stubs["math/rand bounded draw (symbolic)"] = true
			if r.Branch(c.Cmp(OSle, n, c.Const(w, 0))) {
				r.goPanicRuntimeStr("invalid argument to Intn")
			}
			t := r.NewInput("rand_n", w)
			r.Assume(c.Cmp(OUlt, t, n))
			return t
		}
	}
	m["(*math/rand.Rand).Intn"] = boundedRand(64)
	m["(*math/rand.Rand).Int63n"] = boundedRand(64)
	m["(*math/rand.Rand).Int31n"] = boundedRand(32)
	m["math/rand.Intn"] = boundedRand(64)
	m["math/rand.Int63n"] = boundedRand(64)
	m["math/rand.Int31n"] = boundedRand(32)

	// ---- sort ----
	m["sort.Slice"] = func(r *Run, caller *frame, fn *ssa.Function, args []Value) Value {
		it := args[0].(Iface)
		sl := it.v.(Slice)
		less := args[1]
		et := it.t.Underlying().(*types.Slice).Elem()
		stride := ncells(et)
		c := r.ctx()
		// insertion sort driven by the caller's less (forks on symbolic comparisons)
		swap := func(i, j int) {
			for k := 0; k < stride; k++ {
				a := sl.obj.cells[sl.off+i*stride+k]
				b := sl.obj.cells[sl.off+j*stride+k]
				r.storeCell(Ptr{obj: sl.obj, off: sl.off + i*stride}, k, b)
				r.storeCell(Ptr{obj: sl.obj, off: sl.off + j*stride}, k, a)
			}
		}
		for i := 1; i < sl.len; i++ {
			for j := i; j > 0; j-- {
				res := r.call(caller, token.NoPos, less, []Value{c.Const(64, uint64(j)), c.Const(64, uint64(j-1))})
				if !r.Branch(r.termOf(res, "sort less")) {
					break
				}
				swap(j, j-1)
			}
		}
		return nil
	}
	m["sort.SliceStable"] = m["sort.Slice"]

	// ---- fmt (opaque formatting) ----
	m["fmt.Println"] = func(r *Run, caller *frame, fn *ssa.Function, args []Value) Value {
		return Tuple{r.ctx().Const(64, 0), Iface{}}
	}
	m["fmt.Printf"] = m["fmt.Println"]
	m["fmt.Print"] = m["fmt.Println"]
	m["fmt.Sprintf"] = func(r *Run, caller *frame, fn *ssa.Function, args []Value) Value {
		r.stubs["fmt.Sprintf (opaque text)"] = true
		return r.fmtOpaque(args)
	}
	m["fmt.Sprint"] = func(r *Run, caller *frame, fn *ssa.Function, args []Value) Value {
		r.stubs["fmt.Sprint (opaque text)"] = true
		return r.constString("<fmt.Sprint>")
	}
	m["fmt.Errorf"] = func(r *Run, caller *frame, fn *ssa.Function, args []Value) Value {
		r.stubs["fmt.Errorf (opaque text)"] = true
		s := r.fmtOpaque(args)
		return r.newError(s)
	}
}

// fmtOpaque renders a *structural* stand-in for formatted text: the constant format string followed, for
// every argument, by a tag and the argument's bytes (symbolic bytes stay symbolic).  Two such strings are
// equal iff format and arguments are equal, which is what differential harnesses compare.
func (r *Run) fmtOpaque(args []Value) Str {
	c := r.ctx()
	var bs []*Term
	lit := func(s string) {
		for i := 0; i < len(s); i++ {
			bs = append(bs, c.Const(8, uint64(s[i])))
		}
	}
	if f, ok := args[0].(Str); ok {
		bs = append(bs, r.strBytes(f)...)
	}
	if len(args) > 1 {
		sl := args[1].(Slice)
		for i := 0; i < sl.len; i++ {
			lit("|")
			v := sl.obj.cells[sl.off+i]
			it, isI := v.(Iface)
			if !isI || it.t == nil {
				lit("<nil>")
				continue
			}
			switch x := it.v.(type) {
			case *Term:
				t := x
				if t.w == 0 {
					t = c.Ite(t, c.Const(8, 1), c.Const(8, 0))
				}
				if t.w < 64 {
					if _, signed, _ := intInfo(it.t); signed {
						t = c.Sext(t, 64)
					} else {
						t = c.Zext(t, 64)
					}
				}
				for k := 7; k >= 0; k-- {
					bs = append(bs, c.Extract(t, k*8+7, k*8))
				}
			case Str:
				lit(fmt.Sprintf("s%d:", x.n))
				bs = append(bs, r.strBytes(x)...)
			case Slice:
				lit(fmt.Sprintf("b%d:", x.len))
				if x.len > 0 {
					if _, ok := x.obj.cells[x.off].(*Term); ok {
						bs = append(bs, r.sliceBytes(x)...)
					}
				}
			default:
				lit(it.t.String())
			}
		}
	}
	return r.mkString(bs)
}

func (r *Run) describeArg(v Value) string {
	if it, ok := v.(Iface); ok {
		if it.t == nil {
			return "<nil>"
		}
		switch x := it.v.(type) {
		case *Term:
			if x.IsConst() {
				return fmt.Sprint(x.c)
			}
			return "?"
		case Str:
			if s, ok := r.concreteString(x); ok {
				return s
			}
			return "?"
		}
		return it.t.String()
	}
	return "?"
}

// newError builds an error value via errors.New (interpreted).
func (r *Run) newError(s Str) Value {
	f := r.w.ex.stdFunc("errors", "New")
	if f == nil {
		r.unsupported("errors.New not loaded")
	}
	return r.callSSA(nil, f, []Value{s}, nil)
}

func (r *Run) indexByte(bs []*Term, b *Term) Value {
	c := r.ctx()
	res := c.Const(64, ^uint64(0))
	for i := len(bs) - 1; i >= 0; i-- {
		res = c.Ite(c.Eq(bs[i], b), c.Const(64, uint64(i)), res)
	}
	return res
}

func (r *Run) countByte(bs []*Term, b *Term) Value {
	c := r.ctx()
	res := c.Const(64, 0)
	for i := range bs {
		res = c.Bin(OAdd, res, c.Ite(c.Eq(bs[i], b), c.Const(64, 1), c.Const(64, 0)))
	}
	return res
}

func (ex *Explorer) sourceInt63(t types.Type) *ssa.Function {
	ms := ex.prog.MethodSets.MethodSet(t)
	for i := 0; i < ms.Len(); i++ {
		if ms.At(i).Obj().Name() == "Int63" {
			return ex.prog.MethodValue(ms.At(i))
		}
	}
	return nil
}

// bytesUF applies an uninterpreted function from len(in) bytes to n bytes and returns the result as a fresh []byte.
func (r *Run) bytesUF(name string, n int, in []*Term) Value {
	c := r.ctx()
	var res *Term
	if len(in) == 0 {
		res = c.Var("uf0_"+name, n*8)
	} else {
		arg := in[0]
		for _, b := range in[1:] {
			arg = c.Concat(arg, b)
		}
		res = c.UF(name, n*8, arg)
	}
	o := r.allocArray(types.Typ[types.Uint8], n, "uf:"+name)
	for i := 0; i < n; i++ {
		hi := (n-i)*8 - 1
		o.cells[i] = c.Extract(res, hi, hi-7)
	}
	return Slice{obj: o, len: n, cap: n}
}
