package main

import (
	"fmt"
	"os"
	"os/exec"
	"path/filepath"
	"strings"
	"sync"
	"time"
)

// Solver cross-check: a sample of the queries the primary solver (z3 5.1.0, incremental, with
// check-sat-assuming) decided is re-decided from scratch, as self-contained SMT-LIB scripts, by two
// other solvers (z3 4.8.12 and cvc5 1.0). A disagreement makes the job inconclusive.

type xsample struct {
	script string
	res    Res
}

type XCheck struct {
	Sampled      int            `json:"sampled"`
	SampledSat   int            `json:"sampled_sat"`
	SampledUnsat int            `json:"sampled_unsat"`
	Agree        map[string]int `json:"agree"`
	Unknown      map[string]int `json:"unknown"`
	Disagree     map[string]int `json:"disagree"`
	DisagreeDump []string       `json:"disagree_scripts,omitempty"`
	WallS        float64        `json:"wall_s"`
}

// at most 8 second-opinion processes at a time, over all jobs (they share the machine with the next job's workers)
var xcheckSem = make(chan struct{}, 8)

var xSolvers = []struct {
	name string
	argv []string
	pre  string
}{
	{"z3-4.8.12", []string{"/usr/bin/z3", "-smt2", "-in", "-T:3"}, ""},
	{"cvc5-1.0", []string{"cvc5", "--lang=smt2", "--tlimit=10000"}, "(set-logic ALL)\n"},
}

func runXCheck(samples []xsample, dumpDir string) *XCheck {
	xc := &XCheck{Agree: map[string]int{}, Unknown: map[string]int{}, Disagree: map[string]int{}}
	if len(samples) == 0 {
		return xc
	}
	t0 := time.Now()
	var mu sync.Mutex
	var wg sync.WaitGroup
	sem := xcheckSem
	for i, smp := range samples {
		xc.Sampled++
		if smp.res == Sat {
			xc.SampledSat++
		} else {
			xc.SampledUnsat++
		}
		for _, sv := range xSolvers {
			wg.Add(1)
			sem <- struct{}{}
			go func(i int, smp xsample, name string, argv []string, pre string) {
				defer wg.Done()
				defer func() { <-sem }()
				cmd := exec.Command(argv[0], argv[1:]...)
				cmd.Stdin = strings.NewReader(pre + smp.script)
				out, _ := cmd.CombinedOutput()
				s := strings.TrimSpace(string(out))
				got := Unknown
				switch {
				case strings.Contains(s, "(error"):
					got = Unknown
				case strings.HasPrefix(s, "unsat"):
					got = Unsat
				case strings.HasPrefix(s, "sat"):
					got = Sat
				}
				mu.Lock()
				defer mu.Unlock()
				switch {
				case got == Unknown:
					xc.Unknown[name]++
				case got == smp.res:
					xc.Agree[name]++
				default:
					xc.Disagree[name]++
					if dumpDir != "" {
						p := filepath.Join(dumpDir, fmt.Sprintf("xcheck-disagree-%d-%s.smt2", i, name))
						os.WriteFile(p, []byte(fmt.Sprintf("; primary=%v %s=%v\n", smp.res, name, got)+pre+smp.script), 0644)
						xc.DisagreeDump = append(xc.DisagreeDump, p)
					}
				}
			}(i, smp, sv.name, sv.argv, sv.pre)
		}
	}
	wg.Wait()
	xc.WallS = time.Since(t0).Seconds()
	return xc
}
