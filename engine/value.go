package main

// Values, type layout and the object arena.

import (
	"fmt"
	"go/types"
	"sync"

	"golang.org/x/tools/go/ssa"
)

type Value interface{}

// Obj is a heap/stack/global object: a vector of leaf cells.
type Obj struct {
	id    int
	cells []Value
	ro    bool
	pre   bool // allocated before the current run started (writes are journaled)
	uninit string // non-empty: global of a package whose init was skipped
	race  *raceMeta
	label string
}

type Ptr struct {
	obj *Obj
	off int
	// symbolic element index: address = off + sym*stride for 0 <= sym < n (bounds already checked)
	sym    *Term
	stride int
	n      int
	view   int // reinterpreting element width in bits (0 = none)
	fn     bool
}

type Slice struct {
	obj *Obj
	off int
	len int
	cap int
}

type Str struct {
	obj *Obj
	off int
	n   int
}

type Iface struct {
	t types.Type // nil = nil interface
	v Value
}

type Closure struct {
	fn  *ssa.Function
	env []Value
	bi  *ssa.Builtin
}

type mapEntry struct {
	k, v    Value
	deleted bool
}

type MapObj struct {
	id      int
	entries []*mapEntry
	n       int
	kt, vt  types.Type
	pre     bool
	race    *raceMeta
}

type Agg []Value
type Tuple []Value
type Opaque struct{ why string }

type layoutInfo struct {
	n    int
	offs []int // struct: field offsets
}

type Layout struct {
	m sync.Map // types.Type -> *layoutInfo
}

var layouts = &Layout{}

func ncells(t types.Type) int { return layouts.get(t).n }

func (l *Layout) get(t types.Type) *layoutInfo {
	if li, ok := l.m.Load(t); ok {
		return li.(*layoutInfo)
	}
	li := &layoutInfo{}
	switch u := t.Underlying().(type) {
	case *types.Struct:
		li.offs = make([]int, u.NumFields())
		for i := 0; i < u.NumFields(); i++ {
			li.offs[i] = li.n
			li.n += l.get(u.Field(i).Type()).n
		}
	case *types.Array:
		li.n = int(u.Len()) * l.get(u.Elem()).n
	default:
		li.n = 1
	}
	l.m.Store(t, li)
	return li
}

func fieldOff(t types.Type, i int) int { return layouts.get(t).offs[i] }

func isAgg(t types.Type) bool {
	switch t.Underlying().(type) {
	case *types.Struct, *types.Array:
		return true
	}
	return false
}

// intWidth returns (bits, signed, isInt) for basic integer/bool types.
func intInfo(t types.Type) (w int, signed bool, ok bool) {
	b, isb := t.Underlying().(*types.Basic)
	if !isb {
		return 0, false, false
	}
	switch b.Kind() {
	case types.Bool, types.UntypedBool:
		return 0, false, true
	case types.Int8:
		return 8, true, true
	case types.Int16:
		return 16, true, true
	case types.Int32, types.UntypedRune:
		return 32, true, true
	case types.Int64, types.Int, types.UntypedInt:
		return 64, true, true
	case types.Uint8:
		return 8, false, true
	case types.Uint16:
		return 16, false, true
	case types.Uint32:
		return 32, false, true
	case types.Uint64, types.Uint, types.Uintptr:
		return 64, false, true
	}
	return 0, false, false
}

func isString(t types.Type) bool {
	b, ok := t.Underlying().(*types.Basic)
	return ok && b.Info()&types.IsString != 0
}

func isFloat(t types.Type) bool {
	b, ok := t.Underlying().(*types.Basic)
	return ok && b.Info()&(types.IsFloat|types.IsComplex) != 0
}

// zeroLeaf returns the zero value of a non-aggregate type.
func (w *Worker) zeroLeaf(t types.Type) Value {
	switch u := t.Underlying().(type) {
	case *types.Basic:
		if bw, _, ok := intInfo(u); ok {
			return w.ctx.Const(bw, 0)
		}
		if isString(u) {
			return Str{}
		}
		if u.Kind() == types.UnsafePointer {
			return Ptr{}
		}
		if isFloat(u) {
			return Opaque{"float zero"}
		}
		if u.Kind() == types.UntypedNil {
			return Ptr{}
		}
		return Opaque{"basic " + u.String()}
	case *types.Pointer:
		return Ptr{}
	case *types.Slice:
		return Slice{}
	case *types.Interface:
		return Iface{}
	case *types.Signature:
		return (*Closure)(nil)
	case *types.Map:
		return (*MapObj)(nil)
	case *types.Chan:
		return (*ChanObj)(nil)
	case *types.Tuple:
		tu := make(Tuple, u.Len())
		for i := range tu {
			tu[i] = w.zero(u.At(i).Type())
		}
		return tu
	}
	return Opaque{"zero of " + t.String()}
}

func (w *Worker) zeroCells(t types.Type) []Value {
	if c, ok := w.zeroCache[t]; ok {
		return c
	}
	var out []Value
	switch u := t.Underlying().(type) {
	case *types.Struct:
		for i := 0; i < u.NumFields(); i++ {
			out = append(out, w.zeroCells(u.Field(i).Type())...)
		}
	case *types.Array:
		e := w.zeroCells(u.Elem())
		n := int(u.Len())
		out = make([]Value, 0, n*len(e))
		for i := 0; i < n; i++ {
			out = append(out, e...)
		}
	default:
		out = []Value{w.zeroLeaf(t)}
	}
	w.zeroCache[t] = out
	return out
}

func (w *Worker) zero(t types.Type) Value {
	if isAgg(t) {
		return Agg(append([]Value(nil), w.zeroCells(t)...))
	}
	return w.zeroLeaf(t)
}

func (r *Run) newObj(n int, label string) *Obj {
	r.w.objSeq++
	return &Obj{id: r.w.objSeq, cells: make([]Value, n), label: label, pre: r.w.initPhase}
}

func (r *Run) allocType(t types.Type, label string) *Obj {
	z := r.w.zeroCells(t)
	o := r.newObj(len(z), label)
	copy(o.cells, z)
	return o
}

// allocArray allocates n elements of type elem.
func (r *Run) allocArray(elem types.Type, n int, label string) *Obj {
	z := r.w.zeroCells(elem)
	if n*len(z) > r.w.ex.cfg.MaxAlloc {
		panic(abortRun{fmt.Sprintf("allocation budget exceeded: %d cells", n*len(z))})
	}
	o := r.newObj(n*len(z), label)
	if len(z) == 1 {
		z0 := z[0]
		for i := range o.cells {
			o.cells[i] = z0
		}
	} else {
		for i := 0; i < n; i++ {
			copy(o.cells[i*len(z):], z)
		}
	}
	return o
}

// ---- loads and stores ----

func (r *Run) nilDeref() {
	r.goPanicRuntime("invalid memory address or nil pointer dereference")
}

func (r *Run) checkPtr(p Ptr) {
	if p.obj == nil {
		r.nilDeref()
	}
	if p.obj.uninit != "" {
		r.unsupported("access to global of uninitialised package: %s", p.obj.uninit)
	}
}

func (r *Run) loadCell(p Ptr, k int, t types.Type) Value {
	// t is the leaf type expected at the cell (may be nil)
	o := p.obj
	if p.sym == nil {
		idx := p.off + k
		if idx < 0 || idx >= len(o.cells) {
			panic(engineErr{fmt.Sprintf("load out of object: %s off %d len %d", o.label, idx, len(o.cells))})
		}
		r.raceRead(o, idx)
		return o.cells[idx]
	}
	// symbolic index: ite chain over scalar cells
	c := r.ctx()
	var res *Term
	for i := p.n - 1; i >= 0; i-- {
		idx := p.off + k + i*p.stride
		r.raceRead(o, idx)
		cv, ok := o.cells[idx].(*Term)
		if !ok {
			// non-scalar: concretise the index instead
			v := r.Concretize(p.sym, 256, "symbolic index of non-scalar load")
			idx := p.off + k + int(v)*p.stride
			return o.cells[idx]
		}
		if res == nil {
			res = cv
		} else {
			res = c.Ite(c.Eq(p.sym, c.Const(p.sym.w, uint64(i))), cv, res)
		}
	}
	return res
}

func (r *Run) storeCell(p Ptr, k int, v Value) {
	o := p.obj
	if o.ro {
		r.goPanicRuntime("write to read-only memory (string data)")
	}
	if p.sym == nil {
		idx := p.off + k
		if idx < 0 || idx >= len(o.cells) {
			panic(engineErr{fmt.Sprintf("store out of object: %s off %d len %d", o.label, idx, len(o.cells))})
		}
		r.raceWrite(o, idx)
		if o.pre {
			r.undo = append(r.undo, undoRec{o, idx, o.cells[idx]})
		}
		o.cells[idx] = v
		return
	}
	c := r.ctx()
	nv, ok := v.(*Term)
	if !ok {
		val := r.Concretize(p.sym, 256, "symbolic index of non-scalar store")
		q := Ptr{obj: o, off: p.off + int(val)*p.stride}
		r.storeCell(q, k, v)
		return
	}
	for i := 0; i < p.n; i++ {
		idx := p.off + k + i*p.stride
		old, ok := o.cells[idx].(*Term)
		if !ok {
			panic(engineErr{"symbolic store into non-scalar cell"})
		}
		r.raceWrite(o, idx)
		if o.pre {
			r.undo = append(r.undo, undoRec{o, idx, o.cells[idx]})
		}
		o.cells[idx] = c.Ite(c.Eq(p.sym, c.Const(p.sym.w, uint64(i))), nv, old)
	}
}

func (r *Run) load(p Ptr, t types.Type) Value {
	r.checkPtr(p)
	if p.view != 0 {
		return r.loadView(p, t)
	}
	if isAgg(t) {
		n := ncells(t)
		out := make(Agg, n)
		for k := 0; k < n; k++ {
			out[k] = r.loadCell(p, k, nil)
		}
		return out
	}
	v := r.loadCell(p, 0, t)
	// width reinterpretation safety net
	if tv, ok := v.(*Term); ok {
		if w, _, isInt := intInfo(t); isInt && tv.w != w {
			r.unsupported("load of %s from a cell of width %d", t, tv.w)
		}
	}
	return v
}

func (r *Run) store(p Ptr, t types.Type, v Value) {
	r.checkPtr(p)
	if p.view != 0 {
		r.unsupported("store through reinterpreting pointer")
	}
	if isAgg(t) {
		a, ok := v.(Agg)
		if !ok {
			panic(engineErr{fmt.Sprintf("store: aggregate expected for %s, got %T", t, v)})
		}
		for k := range a {
			r.storeCell(p, k, a[k])
		}
		return
	}
	r.storeCell(p, 0, v)
}

// loadView: load of [N]uintK through a pointer whose object holds narrower unsigned cells (little endian).
func (r *Run) loadView(p Ptr, t types.Type) Value {
	arr, ok := t.Underlying().(*types.Array)
	var n int
	var et types.Type
	if ok {
		n = int(arr.Len())
		et = arr.Elem()
	} else {
		n = 1
		et = t
	}
	w, _, isInt := intInfo(et)
	if !isInt || w == 0 || p.sym != nil {
		r.unsupported("reinterpreting load of %s", t)
	}
	c := r.ctx()
	first, ok2 := p.obj.cells[p.off].(*Term)
	if !ok2 || first.w == 0 || w%first.w != 0 {
		r.unsupported("reinterpreting load of %s from non-scalar cells", t)
	}
	k := w / first.w
	out := make(Agg, n)
	for i := 0; i < n; i++ {
		var acc *Term
		for j := 0; j < k; j++ {
			idx := p.off + i*k + j
			var cell *Term
			if idx < len(p.obj.cells) {
				cell, _ = p.obj.cells[idx].(*Term)
			}
			if cell == nil {
				// beyond len but (in Go) within cap: arbitrary memory; the caller must not depend on it
				cell = r.NewInput("oob_mem", first.w)
			}
			r.raceRead(p.obj, idx)
			if acc == nil {
				acc = cell
			} else {
				acc = c.Concat(cell, acc)
			}
		}
		out[i] = acc
	}
	if !ok {
		return out[0]
	}
	return out
}

// ---- strings ----

func (r *Run) mkString(bytes []*Term) Str {
	if len(bytes) == 0 {
		return Str{}
	}
	o := r.newObj(len(bytes), "string")
	for i, b := range bytes {
		o.cells[i] = b
	}
	o.ro = true
	return Str{o, 0, len(bytes)}
}

func (r *Run) constString(s string) Str {
	if s == "" {
		return Str{}
	}
	if st, ok := r.w.strConsts[s]; ok {
		return st
	}
	o := &Obj{id: -1, cells: make([]Value, len(s)), ro: true, label: "strconst"}
	for i := 0; i < len(s); i++ {
		o.cells[i] = r.ctx().Const(8, uint64(s[i]))
	}
	st := Str{o, 0, len(s)}
	r.w.strConsts[s] = st
	return st
}

func (r *Run) strBytes(s Str) []*Term {
	out := make([]*Term, s.n)
	for i := 0; i < s.n; i++ {
		r.raceRead(s.obj, s.off+i)
		out[i] = s.obj.cells[s.off+i].(*Term)
	}
	return out
}

func (r *Run) sliceBytes(s Slice) []*Term {
	out := make([]*Term, s.len)
	for i := 0; i < s.len; i++ {
		r.raceRead(s.obj, s.off+i)
		out[i] = s.obj.cells[s.off+i].(*Term)
	}
	return out
}

// concreteString returns the Go string if every byte is constant.
func (r *Run) concreteString(s Str) (string, bool) {
	b := make([]byte, s.n)
	for i := 0; i < s.n; i++ {
		t := s.obj.cells[s.off+i].(*Term)
		if !t.IsConst() {
			return "", false
		}
		b[i] = byte(t.c)
	}
	return string(b), true
}

func (r *Run) strEq(a, b Str) *Term {
	c := r.ctx()
	if a.n != b.n {
		return c.False
	}
	if a.obj == b.obj && a.off == b.off {
		return c.True
	}
	res := c.True
	ab, bb := r.strBytes(a), r.strBytes(b)
	for i := range ab {
		res = c.And(res, c.Eq(ab[i], bb[i]))
	}
	return res
}

// strLess builds a < b (lexicographic, bytewise).
func (r *Run) strLess(a, b Str) *Term {
	c := r.ctx()
	ab, bb := r.strBytes(a), r.strBytes(b)
	n := len(ab)
	if len(bb) < n {
		n = len(bb)
	}
	// from the back: res = (prefix equal) ? len(a) < len(b) : ...
	res := c.Bool(len(ab) < len(bb))
	for i := n - 1; i >= 0; i-- {
		res = c.Ite(c.Eq(ab[i], bb[i]), res, c.Cmp(OUlt, ab[i], bb[i]))
	}
	return res
}

// ---- equality ----

func (r *Run) equal(t types.Type, a, b Value) *Term {
	c := r.ctx()
	switch u := t.Underlying().(type) {
	case *types.Basic:
		if isString(u) {
			return r.strEq(a.(Str), b.(Str))
		}
		if u.Kind() == types.UnsafePointer {
			return r.ptrEq(a.(Ptr), b.(Ptr))
		}
		at, ok1 := a.(*Term)
		bt, ok2 := b.(*Term)
		if !ok1 || !ok2 {
			r.unsupported("comparison of %s values (%T,%T)", t, a, b)
		}
		return c.Eq(at, bt)
	case *types.Pointer:
		return r.ptrEq(a.(Ptr), b.(Ptr))
	case *types.Struct:
		res := c.True
		aa, ba := a.(Agg), b.(Agg)
		for i := 0; i < u.NumFields(); i++ {
			ft := u.Field(i).Type()
			off := fieldOff(t, i)
			n := ncells(ft)
			var fa, fb Value
			if isAgg(ft) {
				fa, fb = Agg(aa[off:off+n]), Agg(ba[off:off+n])
			} else {
				fa, fb = aa[off], ba[off]
			}
			res = c.And(res, r.equal(ft, fa, fb))
		}
		return res
	case *types.Array:
		res := c.True
		aa, ba := a.(Agg), b.(Agg)
		n := ncells(u.Elem())
		for i := 0; i < int(u.Len()); i++ {
			var fa, fb Value
			if isAgg(u.Elem()) {
				fa, fb = Agg(aa[i*n:(i+1)*n]), Agg(ba[i*n:(i+1)*n])
			} else {
				fa, fb = aa[i], ba[i]
			}
			res = c.And(res, r.equal(u.Elem(), fa, fb))
		}
		return res
	case *types.Interface:
		ia, ib := a.(Iface), b.(Iface)
		if ia.t == nil || ib.t == nil {
			return c.Bool(ia.t == nil && ib.t == nil)
		}
		if !types.Identical(ia.t, ib.t) {
			return c.False
		}
		if !types.Comparable(ia.t) {
			r.goPanicRuntime("comparing uncomparable type " + ia.t.String())
		}
		return r.equal(ia.t, ia.v, ib.v)
	case *types.Slice:
		// only comparison with nil is legal
		sa, sb := a.(Slice), b.(Slice)
		return c.Bool((sa.obj == nil && sa.cap == 0 && !sa.nonNil()) == (sb.obj == nil && sb.cap == 0 && !sb.nonNil()))
	case *types.Map:
		return c.Bool(a.(*MapObj) == b.(*MapObj))
	case *types.Chan:
		return c.Bool(a.(*ChanObj) == b.(*ChanObj))
	case *types.Signature:
		ca, _ := a.(*Closure)
		cb, _ := b.(*Closure)
		return c.Bool(ca == cb)
	}
	r.unsupported("equality on %s", t)
	return nil
}

// Empty non-nil slices are represented with a non-nil obj of zero cells, so obj==nil means nil.
func (s Slice) nonNil() bool { return s.obj != nil }

func (r *Run) ptrEq(a, b Ptr) *Term {
	c := r.ctx()
	if a.sym != nil || b.sym != nil {
		if a.sym != nil {
			v := r.Concretize(a.sym, 256, "pointer comparison")
			a = Ptr{obj: a.obj, off: a.off + int(v)*a.stride}
		}
		if b.sym != nil {
			v := r.Concretize(b.sym, 256, "pointer comparison")
			b = Ptr{obj: b.obj, off: b.off + int(v)*b.stride}
		}
	}
	return c.Bool(a.obj == b.obj && (a.obj == nil || a.off == b.off))
}

func typeKey(t types.Type) string { return t.String() }
