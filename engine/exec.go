package main

// SSA instruction interpreter (shape follows x/tools/go/ssa/interp).

import (
	"fmt"
	"strings"
	"sync"
	"go/constant"
	"go/token"
	"go/types"

	"golang.org/x/tools/go/ssa"
)

type deferred struct {
	fn    Value
	args  []Value
	instr *ssa.Defer
	tail  *deferred
}

type frame struct {
	r         *Run
	g         *G
	caller    *frame
	fn        *ssa.Function
	block     *ssa.BasicBlock
	prevBlock *ssa.BasicBlock
	fi        *funcInfo
	regs      []Value
	locals    []Value
	defers    *deferred
	result    Value
	panicking bool
	panicV    targetPanic
	depth     int
	cur       ssa.Instruction
}

func (fr *frame) get(key ssa.Value) Value {
	switch key := key.(type) {
	case nil:
		return nil
	case *ssa.Function:
		return &Closure{fn: key}
	case *ssa.Builtin:
		return &Closure{bi: key}
	case *ssa.Const:
		return fr.r.constValue(key)
	case *ssa.Global:
		return Ptr{obj: fr.r.w.global(key)}
	}
	if i, ok := fr.fi.slots[key]; ok {
		if v := fr.regs[i]; v != nil {
			return v
		}
		if _, isVoid := key.(*ssa.Call); isVoid {
			return nil
		}
	}
	panic(engineErr{fmt.Sprintf("get: no value for %T: %v in %s", key, key.Name(), fr.fn)})
}

func (r *Run) constValue(c *ssa.Const) Value {
	t := c.Type()
	if c.Value == nil {
		return r.w.zero(t)
	}
	if tp, ok := t.(*types.TypeParam); ok {
		_ = tp
		r.unsupported("constant of type parameter type")
	}
	if b, ok := t.Underlying().(*types.Basic); ok {
		if w, _, isInt := intInfo(b); isInt {
			if w == 0 {
				return r.ctx().Bool(constant.BoolVal(c.Value))
			}
			if c.Value.Kind() == constant.Float {
				// untyped float constant converted to an int type
				f, _ := constant.Float64Val(c.Value)
				return r.ctx().Const(w, uint64(int64(f)))
			}
			if i, ok := constant.Int64Val(constant.ToInt(c.Value)); ok {
				return r.ctx().Const(w, uint64(i))
			}
			u, _ := constant.Uint64Val(constant.ToInt(c.Value))
			return r.ctx().Const(w, u)
		}
		if isString(b) {
			return r.constString(constant.StringVal(c.Value))
		}
		if isFloat(b) {
			return Opaque{"float constant"}
		}
	}
	r.unsupported("constant %v of type %s", c.Value, t)
	return nil
}

func (r *Run) tick() {
	r.nInstr++
	if r.nInstr > r.w.ex.cfg.MaxInstr {
		panic(abortRun{fmt.Sprintf("instruction budget exceeded (%d)", r.w.ex.cfg.MaxInstr)})
	}
}

type continuation int

const (
	kNext continuation = iota
	kReturn
	kJump
)

func (r *Run) termOf(v Value, what string) *Term {
	t, ok := v.(*Term)
	if !ok {
		if o, isO := v.(Opaque); isO {
			r.unsupported("use of opaque value (%s) in %s", o.why, what)
		}
		panic(engineErr{fmt.Sprintf("%s: expected scalar, got %T", what, v)})
	}
	return t
}

func visitInstr(fr *frame, instr ssa.Instruction) continuation {
	r := fr.r
	r.tick()
	switch instr := instr.(type) {
	case *ssa.DebugRef:
	case *ssa.UnOp:
		fr.set(instr, r.unop(fr, instr))
	case *ssa.BinOp:
		fr.set(instr, r.binop(instr.Op, instr.X.Type(), fr.get(instr.X), fr.get(instr.Y), instr.Y.Type()))
	case *ssa.Call:
		fn, args := r.prepareCall(fr, &instr.Call)
		fr.set(instr, r.call(fr, instr.Pos(), fn, args))
	case *ssa.ChangeInterface:
		fr.set(instr, fr.get(instr.X))
	case *ssa.ChangeType:
		fr.set(instr, fr.get(instr.X))
	case *ssa.Convert:
		fr.set(instr, r.conv(instr.Type(), instr.X.Type(), fr.get(instr.X)))
	case *ssa.MultiConvert:
		fr.set(instr, r.conv(instr.Type(), instr.X.Type(), fr.get(instr.X)))
	case *ssa.SliceToArrayPointer:
		s := fr.get(instr.X).(Slice)
		n := int(instr.Type().Underlying().(*types.Pointer).Elem().Underlying().(*types.Array).Len())
		if s.len < n {
			r.goPanicRuntime("cannot convert slice with length less than array length")
		}
		if s.obj == nil {
			fr.set(instr, Ptr{})
		} else {
			fr.set(instr, Ptr{obj: s.obj, off: s.off})
		}
	case *ssa.MakeInterface:
		fr.set(instr, Iface{t: instr.X.Type(), v: fr.get(instr.X)})
	case *ssa.Extract:
		if o, isO := fr.get(instr.Tuple).(Opaque); isO {
			fr.set(instr, o)
		} else {
			fr.set(instr, fr.get(instr.Tuple).(Tuple)[instr.Index])
		}
	case *ssa.Slice:
		fr.set(instr, r.sliceOp(fr, instr))
	case *ssa.Return:
		switch len(instr.Results) {
		case 0:
		case 1:
			fr.result = fr.get(instr.Results[0])
		default:
			res := make(Tuple, len(instr.Results))
			for i, x := range instr.Results {
				res[i] = fr.get(x)
			}
			fr.result = res
		}
		fr.block = nil
		return kReturn
	case *ssa.RunDefers:
		fr.runDefers()
	case *ssa.Panic:
		panic(targetPanic{fr.get(instr.X)})
	case *ssa.Send:
		r.chanSend(fr, fr.get(instr.Chan).(*ChanObj), fr.get(instr.X))
	case *ssa.Store:
		r.store(fr.get(instr.Addr).(Ptr), instr.Val.Type(), fr.get(instr.Val))
	case *ssa.If:
		c := r.termOf(fr.get(instr.Cond), "if")
		succ := 1
		if r.Branch(c) {
			succ = 0
		}
		fr.prevBlock, fr.block = fr.block, fr.block.Succs[succ]
		return kJump
	case *ssa.Jump:
		fr.prevBlock, fr.block = fr.block, fr.block.Succs[0]
		return kJump
	case *ssa.Defer:
		fn, args := r.prepareCall(fr, &instr.Call)
		fr.defers = &deferred{fn: fn, args: args, instr: instr, tail: fr.defers}
	case *ssa.Go:
		fn, args := r.prepareCall(fr, &instr.Call)
		r.spawn(fr, fn, args)
	case *ssa.MakeChan:
		sz := r.termOf(fr.get(instr.Size), "make chan")
		n := int(int64(r.Concretize(sz, 16, "channel capacity")))
		if n < 0 {
			r.goPanicRuntime("makechan: size out of range")
		}
		fr.set(instr, r.newChan(n, instr.Type().Underlying().(*types.Chan).Elem()))
	case *ssa.Alloc:
		o := r.allocType(instr.Type().Underlying().(*types.Pointer).Elem(), "alloc:"+instr.Name())
		if !instr.Heap {
			// locals are re-zeroed each time the Alloc executes; a fresh object has the same effect
		}
		fr.set(instr, Ptr{obj: o})
	case *ssa.MakeSlice:
		fr.set(instr, r.makeSlice(fr, instr))
	case *ssa.MakeMap:
		mt := instr.Type().Underlying().(*types.Map)
		fr.set(instr, r.newMap(mt.Key(), mt.Elem()))
	case *ssa.Range:
		fr.set(instr, r.rangeIter(fr.get(instr.X), instr.X.Type()))
	case *ssa.Next:
		fr.set(instr, r.iterNext(fr, fr.get(instr.Iter).(*iter), instr))
	case *ssa.FieldAddr:
		p := fr.get(instr.X).(Ptr)
		if p.obj == nil {
			r.nilDeref()
		}
		st := instr.X.Type().Underlying().(*types.Pointer).Elem()
		q := p
		q.off += fieldOff(st, instr.Field)
		fr.set(instr, q)
	case *ssa.Field:
		a := fr.get(instr.X).(Agg)
		st := instr.X.Type()
		off := fieldOff(st, instr.Field)
		ft := st.Underlying().(*types.Struct).Field(instr.Field).Type()
		if isAgg(ft) {
			fr.set(instr, Agg(a[off : off+ncells(ft)]))
		} else {
			fr.set(instr, a[off])
		}
	case *ssa.IndexAddr:
		fr.set(instr, r.indexAddr(fr, instr))
	case *ssa.Index:
		fr.set(instr, r.indexOp(fr, instr))
	case *ssa.Lookup:
		fr.set(instr, r.mapLookup(fr.get(instr.X).(*MapObj), fr.get(instr.Index), instr.X.Type().Underlying().(*types.Map), instr.CommaOk))
	case *ssa.MapUpdate:
		m := fr.get(instr.Map).(*MapObj)
		r.mapUpdate(m, fr.get(instr.Key), fr.get(instr.Value))
	case *ssa.TypeAssert:
		fr.set(instr, r.typeAssert(instr, fr.get(instr.X).(Iface)))
	case *ssa.MakeClosure:
		var bindings []Value
		for _, b := range instr.Bindings {
			bindings = append(bindings, fr.get(b))
		}
		fr.set(instr, &Closure{fn: instr.Fn.(*ssa.Function), env: bindings})
	case *ssa.Phi:
		panic(engineErr{"unexpected phi"})
	case *ssa.Select:
		fr.set(instr, r.selectOp(fr, instr))
	default:
		r.unsupported("instruction %T", instr)
	}
	return kNext
}

func (r *Run) prepareCall(fr *frame, call *ssa.CallCommon) (fn Value, args []Value) {
	v := fr.get(call.Value)
	if call.Method == nil {
		fn = v
	} else {
		if o, isO := v.(Opaque); isO {
			return o, nil
		}
		recv := v.(Iface)
		if recv.t == nil {
			r.nilDeref()
		}
		f := r.w.ex.lookupMethod(recv.t, call.Method)
		if f == nil {
			r.unsupported("no method %s on %s", call.Method.Name(), recv.t)
		}
		fn = &Closure{fn: f}
		args = append(args, recv.v)
	}
	for _, a := range call.Args {
		args = append(args, fr.get(a))
	}
	return
}

func (r *Run) call(caller *frame, pos token.Pos, fn Value, args []Value) Value {
	if o, isO := fn.(Opaque); isO {
		return o
	}
	cl, ok := fn.(*Closure)
	if !ok || cl == nil {
		if ok {
			r.nilDeref()
		}
		panic(engineErr{fmt.Sprintf("call of %T", fn)})
	}
	if cl.bi != nil {
		return r.callBuiltin(caller, cl.bi, args)
	}
	return r.callSSA(caller, cl.fn, args, cl.env)
}

func (r *Run) callSSA(caller *frame, fn *ssa.Function, args []Value, env []Value) Value {
	if h := r.w.ex.intrinsicFor(fn); h != nil {
		r.tick()
		return h(r, caller, fn, args)
	}
	if fn.Synthetic == "package initializer" && fn.Pkg != nil && !r.w.ex.initAllowed(fn.Pkg.Pkg.Path()) {
		return nil
	}
	if fn.Blocks == nil || opaquePkg(fn) {
		name := fn.String()
		r.w.ex.noteOpaque(name)
		return r.opaqueResult(fn, "no body: "+name)
	}
	r.w.noteFunc(fn)
	fi := funcInfoFor(fn)
	fr := &frame{r: r, caller: caller, fn: fn, fi: fi, regs: make([]Value, fi.n)}
	if caller != nil {
		fr.g = caller.g
		fr.depth = caller.depth + 1
		if fr.depth > r.w.ex.cfg.MaxDepth {
			panic(abortRun{"call depth budget exceeded"})
		}
	} else {
		fr.g = r.curG()
	}
	for i, p := range fn.Params {
		fr.set(p, args[i])
	}
	for i, fv := range fn.FreeVars {
		fr.set(fv, env[i])
	}
	fr.block = fn.Blocks[0]
	for fr.block != nil {
		runFrame(fr)
	}
	return fr.result
}

func (r *Run) opaqueResult(fn *ssa.Function, why string) Value {
	res := fn.Signature.Results()
	switch res.Len() {
	case 0:
		return nil
	case 1:
		return Opaque{why}
	}
	t := make(Tuple, res.Len())
	for i := range t {
		t[i] = Opaque{why}
	}
	return t
}

func runFrame(fr *frame) {
	defer func() {
		if fr.block == nil {
			return // normal return
		}
		x := recover()
		tp, ok := x.(targetPanic)
		if !ok {
			panic(fr.annotate(x)) // engine-level: propagate (annotated once with the location)
		}
		fr.panicking = true
		fr.panicV = tp
		fr.runDefers()
		fr.block = fr.fn.Recover
		if fr.block == nil {
			// recovered without a recover block: return zero results
			fr.result = fr.r.zeroResults(fr.fn)
		}
	}()
	for {
		nonPhis := executePhis(fr)
		for _, instr := range nonPhis {
			fr.cur = instr
			if visitInstr(fr, instr) == kReturn {
				return
			}
		}
	}
}

func (fr *frame) depthAt() int {
	d := 0
	for f := fr; f != nil; f = f.caller {
		d++
	}
	return d
}

func (r *Run) zeroResults(fn *ssa.Function) Value {
	res := fn.Signature.Results()
	switch res.Len() {
	case 0:
		return nil
	case 1:
		return r.w.zero(res.At(0).Type())
	}
	t := make(Tuple, res.Len())
	for i := range t {
		t[i] = r.w.zero(res.At(i).Type())
	}
	return t
}

func executePhis(fr *frame) []ssa.Instruction {
	firstNonPhi := -1
	var nexts []Value
	for i, instr := range fr.block.Instrs {
		if phi, ok := instr.(*ssa.Phi); ok {
			for j, pred := range fr.block.Preds {
				if fr.prevBlock == pred {
					nexts = append(nexts, fr.get(phi.Edges[j]))
					break
				}
			}
		} else {
			firstNonPhi = i
			break
		}
	}
	for i, v := range nexts {
		fr.set(fr.block.Instrs[i].(*ssa.Phi), v)
	}
	return fr.block.Instrs[firstNonPhi:]
}

func (fr *frame) runDefer(d *deferred) {
	var ok bool
	defer func() {
		if !ok {
			x := recover()
			tp, isT := x.(targetPanic)
			if !isT {
				panic(x)
			}
			fr.panicking = true
			fr.panicV = tp
		}
	}()
	fr.r.call(fr, d.instr.Pos(), d.fn, d.args)
	ok = true
}

func (fr *frame) runDefers() {
	for d := fr.defers; d != nil; d = d.tail {
		fr.runDefer(d)
	}
	fr.defers = nil
	if fr.panicking {
		panic(fr.panicV)
	}
}

func (r *Run) doRecover(caller *frame) Value {
	// recover() must be called directly by a deferred function of a panicking frame
	if caller != nil && !caller.panicking && caller.caller != nil && caller.caller.panicking {
		caller.caller.panicking = false
		p := caller.caller.panicV
		caller.caller.panicV = targetPanic{}
		return p.v
	}
	return Iface{}
}

// goPanicRuntime raises a Go run-time error in the target program.  The
// decision whether the error condition holds has been taken by the caller.
func (r *Run) goPanicRuntime(msg string) {
	panic(targetPanic{r.runtimeError(msg)})
}

func (r *Run) runtimeError(msg string) Value {
	return Iface{t: r.w.ex.runtimeErrT, v: r.constString(msg)}
}

// check raises a run-time error if cond (the *failure* condition) holds; forks when undecided.
func (r *Run) panicIf(fail *Term, msg string) {
	if fail.IsFalse() {
		return
	}
	if r.Branch(fail) {
		r.goPanicRuntime(msg)
	}
}

func (r *Run) unop(fr *frame, instr *ssa.UnOp) Value {
	x := fr.get(instr.X)
	c := r.ctx()
	switch instr.Op {
	case token.MUL:
		return r.load(x.(Ptr), instr.Type())
	case token.ARROW:
		return r.chanRecv(fr, x.(*ChanObj), instr.CommaOk, instr.X.Type().Underlying().(*types.Chan).Elem())
	case token.NOT:
		return c.Not(r.termOf(x, "!"))
	case token.SUB:
		if isFloat(instr.Type()) {
			return Opaque{"float neg"}
		}
		return c.Un(ONeg, r.termOf(x, "neg"))
	case token.XOR:
		return c.Un(ONot, r.termOf(x, "^"))
	}
	r.unsupported("unop %s", instr.Op)
	return nil
}

func (r *Run) typeAssert(instr *ssa.TypeAssert, x Iface) Value {
	var ok bool
	var v Value
	if it, isI := instr.AssertedType.Underlying().(*types.Interface); isI {
		if x.t != nil && r.w.ex.implements(x.t, it) {
			ok = true
			v = x
		}
	} else if x.t != nil && types.Identical(x.t, instr.AssertedType) {
		ok = true
		v = x.v
	}
	if instr.CommaOk {
		if !ok {
			v = r.w.zero(instr.AssertedType)
		}
		return Tuple{v, r.ctx().Bool(ok)}
	}
	if !ok {
		from := "nil"
		if x.t != nil {
			from = x.t.String()
		}
		r.goPanicRuntime("interface conversion: interface is " + from + ", not " + instr.AssertedType.String())
	}
	return v
}

// ---- indexing and slicing ----

// boundsIdx checks 0 <= idx < n (n concrete) and returns the index term (width 64).
func (r *Run) checkIndex(idx *Term, signed bool, n int, msg string) {
	c := r.ctx()
	var fail *Term
	nt := c.Const(idx.w, uint64(n))
	// as unsigned compare: negative signed values are huge
	fail = c.Not(c.Cmp(OUlt, idx, nt))
	r.panicIf(fail, msg)
}

func (r *Run) idx64(v Value, t types.Type) *Term {
	it := r.termOf(v, "index")
	_, signed, _ := intInfo(t)
	if it.w < 64 {
		if signed {
			return r.ctx().Sext(it, 64)
		}
		return r.ctx().Zext(it, 64)
	}
	return it
}

func (r *Run) symPtr(base Ptr, idx *Term, n, stride int, scalarElem bool) Ptr {
	if idx.op == OConst {
		base.off += int(idx.c) * stride
		return base
	}
	if base.sym != nil {
		v := r.Concretize(base.sym, 256, "nested symbolic index")
		base = Ptr{obj: base.obj, off: base.off + int(v)*base.stride}
	}
	// unique-value shortcut via the model
	if !scalarElem || n > r.w.ex.cfg.MaxSymIndex {
		v := r.Concretize(idx, r.w.ex.cfg.MaxFork, "element index")
		base.off += int(v) * stride
		return base
	}
	base.sym, base.stride, base.n = idx, stride, n
	return base
}

func isScalarType(t types.Type) bool {
	_, _, ok := intInfo(t)
	return ok
}

func (r *Run) indexAddr(fr *frame, instr *ssa.IndexAddr) Value {
	x := fr.get(instr.X)
	idx := r.idx64(fr.get(instr.Index), instr.Index.Type())
	switch xv := x.(type) {
	case Ptr: // *array
		if xv.obj == nil {
			r.nilDeref()
		}
		arr := instr.X.Type().Underlying().(*types.Pointer).Elem().Underlying().(*types.Array)
		r.checkIndex(idx, true, int(arr.Len()), "index out of range")
		return r.symPtr(xv, idx, int(arr.Len()), ncells(arr.Elem()), isScalarType(arr.Elem()))
	case Slice:
		et := instr.X.Type().Underlying().(*types.Slice).Elem()
		r.checkIndex(idx, true, xv.len, "index out of range")
		return r.symPtr(Ptr{obj: xv.obj, off: xv.off}, idx, xv.len, ncells(et), isScalarType(et))
	}
	panic(engineErr{fmt.Sprintf("indexAddr on %T", x)})
}

func (r *Run) indexOp(fr *frame, instr *ssa.Index) Value {
	x := fr.get(instr.X)
	idx := r.idx64(fr.get(instr.Index), instr.Index.Type())
	c := r.ctx()
	switch xv := x.(type) {
	case Str:
		r.checkIndex(idx, true, xv.n, "index out of range")
		if idx.op == OConst {
			r.raceRead(xv.obj, xv.off+int(idx.c))
			return xv.obj.cells[xv.off+int(idx.c)]
		}
		return r.load(Ptr{obj: xv.obj, off: xv.off, sym: idx, stride: 1, n: xv.n}, types.Typ[types.Uint8])
	case Agg:
		arr := instr.X.Type().Underlying().(*types.Array)
		n := int(arr.Len())
		r.checkIndex(idx, true, n, "index out of range")
		ec := ncells(arr.Elem())
		if idx.op != OConst {
			if isScalarType(arr.Elem()) && n <= r.w.ex.cfg.MaxSymIndex {
				var res *Term
				for i := n - 1; i >= 0; i-- {
					cv := xv[i].(*Term)
					if res == nil {
						res = cv
					} else {
						res = c.Ite(c.Eq(idx, c.Const(64, uint64(i))), cv, res)
					}
				}
				return res
			}
			idx = c.Const(64, r.Concretize(idx, r.w.ex.cfg.MaxFork, "array value index"))
		}
		i := int(idx.c)
		if isAgg(arr.Elem()) {
			return Agg(xv[i*ec : (i+1)*ec])
		}
		return xv[i]
	}
	panic(engineErr{fmt.Sprintf("index on %T", x)})
}

func (r *Run) concInt(v Value, t types.Type, max int, what string) int {
	it := r.idx64(v, t)
	return int(int64(r.Concretize(it, max, what)))
}

func (r *Run) sliceOp(fr *frame, instr *ssa.Slice) Value {
	x := fr.get(instr.X)
	c := r.ctx()
	var baseObj *Obj
	var baseOff, length, capacity, stride int
	isStr := false
	switch xv := x.(type) {
	case Str:
		baseObj, baseOff, length, capacity, stride, isStr = xv.obj, xv.off, xv.n, xv.n, 1, true
	case Slice:
		baseObj, baseOff, length, capacity = xv.obj, xv.off, xv.len, xv.cap
		stride = ncells(instr.X.Type().Underlying().(*types.Slice).Elem())
	case Ptr:
		if xv.obj == nil {
			r.nilDeref()
		}
		arr := instr.X.Type().Underlying().(*types.Pointer).Elem().Underlying().(*types.Array)
		baseObj, baseOff, length, capacity = xv.obj, xv.off, int(arr.Len()), int(arr.Len())
		stride = ncells(arr.Elem())
	default:
		panic(engineErr{fmt.Sprintf("slice of %T", x)})
	}
	lo := c.Const(64, 0)
	hi := c.Const(64, uint64(length))
	max := c.Const(64, uint64(capacity))
	if instr.Low != nil {
		lo = r.idx64(fr.get(instr.Low), instr.Low.Type())
	}
	if instr.High != nil {
		hi = r.idx64(fr.get(instr.High), instr.High.Type())
	}
	if instr.Max != nil {
		max = r.idx64(fr.get(instr.Max), instr.Max.Type())
	}
	limit := capacity
	// checks in Go's order: max <= cap, hi <= max (or cap/len for strings), lo <= hi (all unsigned compares catch negatives)
	if instr.Max != nil {
		r.panicIf(c.Not(c.Cmp(OUle, max, c.Const(64, uint64(capacity)))), "slice bounds out of range [::max] with capacity")
	}
	if isStr {
		limit = length
		r.panicIf(c.Not(c.Cmp(OUle, hi, c.Const(64, uint64(limit)))), "slice bounds out of range [:hi] with length")
	} else {
		r.panicIf(c.Not(c.Cmp(OUle, hi, max)), "slice bounds out of range [:hi] with capacity")
	}
	r.panicIf(c.Not(c.Cmp(OUle, lo, hi)), "slice bounds out of range [lo:hi]")
	if isStr && lo.op != OConst {
		// s[lo:lo+k] of a string with symbolic lo and constant length k: build the k bytes as symbolic loads
		// (strings are immutable, so a copy is indistinguishable from a view)
		if d := c.Bin(OSub, hi, lo); d.op == OConst && int(d.c) <= 16 && length <= r.w.ex.cfg.MaxSymIndex {
			k := int(d.c)
			if k == 0 {
				return Str{}
			}
			bs := make([]*Term, k)
			for j := 0; j < k; j++ {
				idx := c.Bin(OAdd, lo, c.Const(64, uint64(j)))
				bs[j] = r.load(Ptr{obj: baseObj, off: baseOff, sym: idx, stride: 1, n: length}, types.Typ[types.Uint8]).(*Term)
			}
			return r.mkString(bs)
		}
	}
	l := int(r.Concretize(lo, r.w.ex.cfg.MaxFork, "slice low bound"))
	h := int(r.Concretize(hi, r.w.ex.cfg.MaxFork, "slice high bound"))
	m := int(r.Concretize(max, r.w.ex.cfg.MaxFork, "slice max bound"))
	if isStr {
		if h-l == 0 {
			return Str{}
		}
		return Str{obj: baseObj, off: baseOff + l, n: h - l}
	}
	if baseObj == nil {
		return Slice{}
	}
	return Slice{obj: baseObj, off: baseOff + l*stride, len: h - l, cap: m - l}
}

func (r *Run) makeSlice(fr *frame, instr *ssa.MakeSlice) Value {
	c := r.ctx()
	lt := r.idx64(fr.get(instr.Len), instr.Len.Type())
	ct := r.idx64(fr.get(instr.Cap), instr.Cap.Type())
	lim := c.Const(64, uint64(r.w.ex.cfg.MaxAlloc))
	// negative or absurd sizes panic in Go (len out of range); sizes between the engine's allocation
	// budget and Go's real limit are outside the bound and abort the path as such.
	r.panicIf(c.Cmp(OSlt, lt, c.Const(64, 0)), "makeslice: len out of range")
	r.panicIf(c.Or(c.Cmp(OSlt, ct, c.Const(64, 0)), c.Cmp(OSlt, ct, lt)), "makeslice: cap out of range")
	if r.Branch(c.Cmp(OUlt, lim, ct)) {
		panic(abortRun{"bound exceeded: make with capacity above the allocation budget"})
	}
	n := int(r.Concretize(lt, r.w.ex.cfg.MaxFork, "make len"))
	cp := int(r.Concretize(ct, r.w.ex.cfg.MaxFork, "make cap"))
	et := instr.Type().Underlying().(*types.Slice).Elem()
	o := r.allocArray(et, cp, "makeslice")
	return Slice{obj: o, off: 0, len: n, cap: cp}
}

func (fr *frame) where() string {
	s := fr.fn.String()
	if fr.cur != nil {
		s += ": " + fr.cur.String()
		if p := fr.fn.Prog.Fset.Position(fr.cur.Pos()); p.IsValid() {
			s += fmt.Sprintf(" (%s:%d)", p.Filename, p.Line)
		}
	}
	return s
}

func (fr *frame) annotate(x interface{}) interface{} {
	switch e := x.(type) {
	case engineErr:
		if !strings.Contains(e.msg, " @ ") {
			e.msg += " @ " + fr.where()
		}
		return e
	case abortRun:
		if strings.HasPrefix(e.why, "unsupported") && !strings.Contains(e.why, " @ ") {
			e.why += " @ " + fr.where()
		}
		return e
	case error:
		// host runtime error inside the engine
		return engineErr{"host panic: " + e.Error() + " @ " + fr.where()}
	}
	return x
}

var opaquePkgs = map[string]bool{"internal/reflectlite": true, "reflect": true, "internal/abi": true, "runtime": true, "os": true, "syscall": true,
	"internal/poll": true, "internal/godebug": true, "internal/testlog": true, "internal/syscall/unix": true, "time": true, "sync": true,
	"sync/atomic": true, "internal/oserror": true, "io/fs": true, "fmt": true, "log": true, "net": true, "math/big": true, "crypto/rand": true,
	"crypto/aes": true, "crypto/md5": true, "crypto/sha1": true, "crypto/sha256": true, "crypto/sha512": true, "crypto/hmac": true, "testing": true,
	"internal/fmtsort": true, "unicode/utf8_": false}

func opaquePkg(fn *ssa.Function) bool {
	if fn.Pkg == nil {
		if o := fn.Origin(); o != nil && o.Pkg != nil {
			return opaquePkgs[o.Pkg.Pkg.Path()]
		}
		if fn.Object() != nil && fn.Object().Pkg() != nil {
			return opaquePkgs[fn.Object().Pkg().Path()]
		}
		return false
	}
	return opaquePkgs[fn.Pkg.Pkg.Path()]
}

// funcInfo: register slots of a function's SSA values (computed once per function, shared by all workers).
type funcInfo struct {
	slots map[ssa.Value]int
	n     int
}

var funcInfos sync.Map // *ssa.Function -> *funcInfo

func funcInfoFor(fn *ssa.Function) *funcInfo {
	if fi, ok := funcInfos.Load(fn); ok {
		return fi.(*funcInfo)
	}
	fi := &funcInfo{slots: map[ssa.Value]int{}}
	add := func(v ssa.Value) {
		if _, ok := fi.slots[v]; !ok {
			fi.slots[v] = fi.n
			fi.n++
		}
	}
	for _, p := range fn.Params {
		add(p)
	}
	for _, fv := range fn.FreeVars {
		add(fv)
	}
	for _, b := range fn.Blocks {
		for _, ins := range b.Instrs {
			if v, ok := ins.(ssa.Value); ok {
				add(v)
			}
		}
	}
	funcInfos.Store(fn, fi)
	return fi
}

func (fr *frame) set(k ssa.Value, v Value) {
	fr.regs[fr.fi.slots[k]] = v
}
