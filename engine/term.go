package main

// Hash-consed bit-vector / boolean terms with an eager simplifier and a
// concrete evaluator.  One TermCtx per worker (not shared).

import (
	"fmt"
	"math/bits"
	"strings"
)

type Op uint8

const (
	OConst Op = iota
	OVar
	OAdd
	OSub
	OMul
	OUDiv
	OURem
	OSDiv
	OSRem
	OAnd
	OOr
	OXor
	ONot
	ONeg
	OShl
	OLshr
	OAshr
	OConcat
	OExtract
	OZext
	OSext
	OIte
	OEq
	OUlt
	OUle
	OSlt
	OSle
	OBAnd
	OBOr
	OBNot
	OUF
)

var opSMT = map[Op]string{
	OAdd: "bvadd", OSub: "bvsub", OMul: "bvmul", OUDiv: "bvudiv", OURem: "bvurem", OSDiv: "bvsdiv", OSRem: "bvsrem",
	OAnd: "bvand", OOr: "bvor", OXor: "bvxor", ONot: "bvnot", ONeg: "bvneg", OShl: "bvshl", OLshr: "bvlshr", OAshr: "bvashr",
	OConcat: "concat", OIte: "ite", OEq: "=", OUlt: "bvult", OUle: "bvule", OSlt: "bvslt", OSle: "bvsle",
	OBAnd: "and", OBOr: "or", OBNot: "not",
}

// Term: w == 0 means Bool.  Widths > 64 are allowed only for var / concat /
// extract / ite / eq / uf (no constant folding on them).
type Term struct {
	op   Op
	w    int
	a    []*Term
	c    uint64 // OConst value; OExtract: hi<<16|lo
	name string // OVar / OUF
	id   int
	emit int // generation of the solver session in which this term is defined (0 = none)
	vars []int // sorted ids of the variables (and UF pseudo-variables) below this term
	varsDone bool
	plit int // solver generation in which the indicator literal is declared
	h1, h2 uint64 // structural hash (identical across workers)
	hasUF bool
}

type termKey struct {
	op         Op
	w          int
	a0, a1, a2 int
	c          uint64
	name       string
}

type TermCtx struct {
	tab   map[termKey]*Term
	tabN  map[string]*Term // n-ary (UF with > 3 args)
	next  int
	True  *Term
	False *Term
	ufs   map[string]*ufDecl
	vars  []*Term // in creation order (per worker, across runs)
	varByID map[int]*Term
	ufVarID map[string]int
	probes  map[*Term]*Term
}

type ufDecl struct {
	name string
	argW []int
	resW int
	emit bool
}

func NewTermCtx() *TermCtx {
	c := &TermCtx{tab: map[termKey]*Term{}, tabN: map[string]*Term{}, ufs: map[string]*ufDecl{}, varByID: map[int]*Term{}, ufVarID: map[string]int{}, probes: map[*Term]*Term{}}
	c.True = c.mk(OConst, 0, 1, "")
	c.False = c.mk(OConst, 0, 0, "")
	return c
}

func (c *TermCtx) mk(op Op, w int, cv uint64, name string, a ...*Term) *Term {
	if len(a) <= 3 {
		k := termKey{op: op, w: w, c: cv, name: name, a0: -1, a1: -1, a2: -1}
		if len(a) > 0 {
			k.a0 = a[0].id
		}
		if len(a) > 1 {
			k.a1 = a[1].id
		}
		if len(a) > 2 {
			k.a2 = a[2].id
		}
		if t, ok := c.tab[k]; ok {
			return t
		}
		t := &Term{op: op, w: w, c: cv, name: name, a: a, id: c.next}
		c.next++
		for _, x := range a {
			if x.hasUF {
				t.hasUF = true
			}
		}
		if op == OUF {
			t.hasUF = true
		}
		t.structHash()
		c.tab[k] = t
		return t
	}
	var sb strings.Builder
	fmt.Fprintf(&sb, "%d/%d/%d/%s", op, w, cv, name)
	for _, x := range a {
		fmt.Fprintf(&sb, ",%d", x.id)
	}
	k := sb.String()
	if t, ok := c.tabN[k]; ok {
		return t
	}
	t := &Term{op: op, w: w, c: cv, name: name, a: append([]*Term(nil), a...), id: c.next}
	c.next++
	for _, x := range a {
		if x.hasUF {
			t.hasUF = true
		}
	}
	if op == OUF {
		t.hasUF = true
	}
	t.structHash()
	c.tabN[k] = t
	return t
}

func mask(w int) uint64 {
	if w >= 64 {
		return ^uint64(0)
	}
	return (uint64(1) << uint(w)) - 1
}

func sx(v uint64, w int) int64 {
	if w >= 64 {
		return int64(v)
	}
	sh := uint(64 - w)
	return int64(v<<sh) >> sh
}

func (t *Term) IsConst() bool { return t.op == OConst }
func (t *Term) IsTrue() bool  { return t.op == OConst && t.w == 0 && t.c == 1 }
func (t *Term) IsFalse() bool { return t.op == OConst && t.w == 0 && t.c == 0 }

func (c *TermCtx) Const(w int, v uint64) *Term {
	if w == 0 {
		if v != 0 {
			return c.True
		}
		return c.False
	}
	if w > 64 {
		panic("Const: width > 64")
	}
	return c.mk(OConst, w, v&mask(w), "")
}

func (c *TermCtx) Bool(b bool) *Term {
	if b {
		return c.True
	}
	return c.False
}

func (c *TermCtx) Var(name string, w int) *Term {
	k := termKey{op: OVar, w: w, name: name, a0: -1, a1: -1, a2: -1}
	if t, ok := c.tab[k]; ok {
		return t
	}
	t := c.mk(OVar, w, 0, name)
	c.vars = append(c.vars, t)
	c.varByID[t.id] = t
	return t
}

func (c *TermCtx) UF(name string, resW int, args ...*Term) *Term {
	d, ok := c.ufs[name]
	if !ok {
		d = &ufDecl{name: name, resW: resW}
		for _, a := range args {
			d.argW = append(d.argW, a.w)
		}
		c.ufs[name] = d
	} else {
		if d.resW != resW || len(d.argW) != len(args) {
			panic("UF " + name + ": inconsistent signature")
		}
		for i, a := range args {
			if d.argW[i] != a.w {
				panic("UF " + name + ": inconsistent arg width")
			}
		}
	}
	if len(args) == 0 {
		return c.Var("uf0_"+name, resW)
	}
	return c.mk(OUF, resW, 0, name, args...)
}

func fold2(op Op, w int, x, y uint64) (uint64, bool) {
	m := mask(w)
	switch op {
	case OAdd:
		return (x + y) & m, true
	case OSub:
		return (x - y) & m, true
	case OMul:
		return (x * y) & m, true
	case OUDiv:
		if y == 0 {
			return m, true
		}
		return (x / y) & m, true
	case OURem:
		if y == 0 {
			return x, true
		}
		return (x % y) & m, true
	case OSDiv:
		sxv, syv := sx(x, w), sx(y, w)
		if syv == 0 {
			if sxv < 0 {
				return 1, true
			}
			return m, true
		}
		if syv == -1 {
			return uint64(-sxv) & m, true
		}
		return uint64(sxv/syv) & m, true
	case OSRem:
		sxv, syv := sx(x, w), sx(y, w)
		if syv == 0 {
			return x, true
		}
		if syv == -1 {
			return 0, true
		}
		return uint64(sxv%syv) & m, true
	case OAnd:
		return x & y, true
	case OOr:
		return x | y, true
	case OXor:
		return x ^ y, true
	case OShl:
		if y >= uint64(w) {
			return 0, true
		}
		return (x << y) & m, true
	case OLshr:
		if y >= uint64(w) {
			return 0, true
		}
		return x >> y, true
	case OAshr:
		s := sx(x, w)
		if y >= uint64(w) {
			y = uint64(w - 1)
			if w == 64 {
				y = 63
			}
		}
		return uint64(s>>y) & m, true
	}
	return 0, false
}

func (c *TermCtx) Bin(op Op, x, y *Term) *Term {
	if x.w != y.w {
		panic(fmt.Sprintf("Bin %v: width mismatch %d vs %d", op, x.w, y.w))
	}
	w := x.w
	if x.op == OConst && y.op == OConst && w <= 64 {
		if v, ok := fold2(op, w, x.c, y.c); ok {
			return c.Const(w, v)
		}
	}
	// canonical order: constant on the right for commutative ops
	switch op {
	case OAdd, OMul, OAnd, OOr, OXor:
		if x.op == OConst && y.op != OConst {
			x, y = y, x
		}
	}
	yc := y.op == OConst
	switch op {
	case OAdd:
		if yc && y.c == 0 {
			return x
		}
		if yc && x.op == OAdd && x.a[1].op == OConst {
			return c.Bin(OAdd, x.a[0], c.Const(w, x.a[1].c+y.c))
		}
	case OSub:
		if yc && y.c == 0 {
			return x
		}
		if x == y {
			return c.Const(w, 0)
		}
		if yc && w <= 64 {
			return c.Bin(OAdd, x, c.Const(w, -y.c))
		}
		// (a + k1) - (a + k2)
		if x.op == OAdd && x.a[1].op == OConst && y.op == OAdd && y.a[1].op == OConst && x.a[0] == y.a[0] {
			return c.Const(w, x.a[1].c-y.a[1].c)
		}
		if x.op == OAdd && x.a[1].op == OConst && x.a[0] == y {
			return x.a[1]
		}
		if y.op == OAdd && y.a[1].op == OConst && y.a[0] == x {
			return c.Const(w, -y.a[1].c)
		}
	case OMul:
		if yc && y.c == 0 {
			return y
		}
		if yc && y.c == 1 {
			return x
		}
	case OAnd:
		if yc && y.c == 0 {
			return y
		}
		if yc && y.c == mask(w) {
			return x
		}
		if x == y {
			return x
		}
	case OOr:
		if yc && y.c == 0 {
			return x
		}
		if yc && y.c == mask(w) {
			return y
		}
		if x == y {
			return x
		}
	case OXor:
		if yc && y.c == 0 {
			return x
		}
		if x == y {
			return c.Const(w, 0)
		}
	case OShl, OLshr, OAshr:
		if yc && y.c == 0 {
			return x
		}
		if x.op == OConst && x.c == 0 {
			return x
		}
	case OUDiv:
		if yc && y.c == 1 {
			return x
		}
		if yc && y.c != 0 && y.c&(y.c-1) == 0 && w <= 64 {
			return c.Bin(OLshr, x, c.Const(w, uint64(bits.TrailingZeros64(y.c))))
		}
	case OURem:
		if yc && y.c == 1 {
			return c.Const(w, 0)
		}
		if yc && y.c != 0 && y.c&(y.c-1) == 0 && w <= 64 {
			return c.Bin(OAnd, x, c.Const(w, y.c-1))
		}
	}
	return c.mk(op, w, 0, "", x, y)
}

func (c *TermCtx) Un(op Op, x *Term) *Term {
	if x.op == OConst {
		switch op {
		case ONot:
			return c.Const(x.w, ^x.c)
		case ONeg:
			return c.Const(x.w, -x.c)
		}
	}
	if x.op == op {
		return x.a[0]
	}
	return c.mk(op, x.w, 0, "", x)
}

func (c *TermCtx) Extract(x *Term, hi, lo int) *Term {
	w := hi - lo + 1
	if lo == 0 && w == x.w {
		return x
	}
	if hi >= x.w || lo < 0 || w <= 0 {
		panic(fmt.Sprintf("Extract[%d:%d] of width %d", hi, lo, x.w))
	}
	if x.op == OConst {
		return c.Const(w, x.c>>uint(lo))
	}
	switch x.op {
	case OZext:
		in := x.a[0]
		if hi < in.w {
			return c.Extract(in, hi, lo)
		}
		if lo >= in.w {
			return c.Const(w, 0)
		}
	case OSext:
		in := x.a[0]
		if hi < in.w {
			return c.Extract(in, hi, lo)
		}
	case OConcat:
		h, l := x.a[0], x.a[1]
		if hi < l.w {
			return c.Extract(l, hi, lo)
		}
		if lo >= l.w {
			return c.Extract(h, hi-l.w, lo-l.w)
		}
	case OExtract:
		ilo := int(x.c & 0xffff)
		return c.Extract(x.a[0], hi+ilo, lo+ilo)
	case OAnd, OOr, OXor:
		// distribute over bitwise operators when that exposes a constant or a shifted-out part
		a, b := x.a[0], x.a[1]
		if extractCheap(a, hi, lo) || extractCheap(b, hi, lo) {
			return c.Bin(x.op, c.Extract(a, hi, lo), c.Extract(b, hi, lo))
		}
	case OShl:
		if k := x.a[1]; k.op == OConst {
			sh := int(k.c)
			if hi < sh {
				return c.Const(w, 0)
			}
			if lo >= sh && sh < x.w {
				return c.Extract(x.a[0], hi-sh, lo-sh)
			}
		}
	case OLshr:
		if k := x.a[1]; k.op == OConst {
			sh := int(k.c)
			if sh < x.w && hi+sh < x.w {
				return c.Extract(x.a[0], hi+sh, lo+sh)
			}
			if lo+sh >= x.w {
				return c.Const(w, 0)
			}
		}
	}
	return c.mk(OExtract, w, uint64(hi)<<16|uint64(lo), "", x)
}

func (c *TermCtx) Zext(x *Term, w int) *Term {
	if w == x.w {
		return x
	}
	if w < x.w {
		return c.Extract(x, w-1, 0)
	}
	if x.op == OConst {
		return c.Const(w, x.c)
	}
	if x.op == OZext {
		return c.Zext(x.a[0], w)
	}
	return c.mk(OZext, w, 0, "", x)
}

func (c *TermCtx) Sext(x *Term, w int) *Term {
	if w == x.w {
		return x
	}
	if w < x.w {
		return c.Extract(x, w-1, 0)
	}
	if x.op == OConst {
		return c.Const(w, uint64(sx(x.c, x.w)))
	}
	if x.op == OZext { // sign bit is 0
		return c.Zext(x.a[0], w)
	}
	return c.mk(OSext, w, 0, "", x)
}

func (c *TermCtx) Concat(hi, lo *Term) *Term {
	w := hi.w + lo.w
	if hi.op == OConst && lo.op == OConst && w <= 64 {
		return c.Const(w, hi.c<<uint(lo.w)|lo.c)
	}
	if hi.op == OConst && hi.c == 0 && w <= 64 {
		return c.Zext(lo, w)
	}
	// concat(extract(x,h,m+1), extract(x,m,l)) = extract(x,h,l)
	if hi.op == OExtract && lo.op == OExtract && hi.a[0] == lo.a[0] {
		hlo := int(hi.c & 0xffff)
		lhi := int(lo.c >> 16)
		if hlo == lhi+1 {
			return c.Extract(hi.a[0], int(hi.c>>16), int(lo.c&0xffff))
		}
	}
	return c.mk(OConcat, w, 0, "", hi, lo)
}

func (c *TermCtx) Ite(cond, x, y *Term) *Term {
	if cond.IsTrue() {
		return x
	}
	if cond.IsFalse() {
		return y
	}
	if x == y {
		return x
	}
	if x.w == 0 {
		if x.IsTrue() && y.IsFalse() {
			return cond
		}
		if x.IsFalse() && y.IsTrue() {
			return c.Not(cond)
		}
		if x.IsTrue() {
			return c.Or(cond, y)
		}
		if x.IsFalse() {
			return c.And(c.Not(cond), y)
		}
		if y.IsTrue() {
			return c.Or(c.Not(cond), x)
		}
		if y.IsFalse() {
			return c.And(cond, x)
		}
	}
	if x.w != y.w {
		panic("Ite: width mismatch")
	}
	if cond.op == OBNot {
		return c.Ite(cond.a[0], y, x)
	}
	return c.mk(OIte, x.w, 0, "", cond, x, y)
}

func (c *TermCtx) Eq(x, y *Term) *Term {
	if x == y {
		return c.True
	}
	if x.w != y.w {
		panic(fmt.Sprintf("Eq: width mismatch %d vs %d", x.w, y.w))
	}
	if x.op == OConst && y.op == OConst {
		return c.Bool(x.c == y.c)
	}
	if x.op == OConst {
		x, y = y, x
	}
	if x.w == 0 {
		if y.IsTrue() {
			return x
		}
		if y.IsFalse() {
			return c.Not(x)
		}
	}
	if y.op == OConst {
		// (a + k) == c  ->  a == c-k
		if x.op == OAdd && x.a[1].op == OConst {
			return c.Eq(x.a[0], c.Const(x.w, y.c-x.a[1].c))
		}
		// zext(a) == c
		if x.op == OZext {
			in := x.a[0]
			if y.c > mask(in.w) {
				return c.False
			}
			return c.Eq(in, c.Const(in.w, y.c))
		}
		// ite(c, k1, k2) == k
		if x.op == OIte && x.a[1].op == OConst && x.a[2].op == OConst {
			t1 := x.a[1].c == y.c
			t2 := x.a[2].c == y.c
			switch {
			case t1 && t2:
				return c.True
			case t1:
				return x.a[0]
			case t2:
				return c.Not(x.a[0])
			default:
				return c.False
			}
		}
	}
	if x.op == OAdd && y.op == OAdd && x.a[0] == y.a[0] && x.a[1].op == OConst && y.a[1].op == OConst {
		return c.Bool(x.a[1].c == y.a[1].c)
	}
	if x.op == OAdd && x.a[0] == y && x.a[1].op == OConst {
		return c.Bool(x.a[1].c == 0)
	}
	if y.op == OAdd && y.a[0] == x && y.a[1].op == OConst {
		return c.Bool(y.a[1].c == 0)
	}
	if x.id > y.id {
		x, y = y, x
	}
	return c.mk(OEq, 0, 0, "", x, y)
}

func (c *TermCtx) Cmp(op Op, x, y *Term) *Term {
	if x.w != y.w {
		panic(fmt.Sprintf("Cmp: width mismatch %d vs %d", x.w, y.w))
	}
	if x.op == OConst && y.op == OConst {
		switch op {
		case OUlt:
			return c.Bool(x.c < y.c)
		case OUle:
			return c.Bool(x.c <= y.c)
		case OSlt:
			return c.Bool(sx(x.c, x.w) < sx(y.c, y.w))
		case OSle:
			return c.Bool(sx(x.c, x.w) <= sx(y.c, y.w))
		}
	}
	if x == y {
		return c.Bool(op == OUle || op == OSle)
	}
	switch op {
	case OUlt:
		if y.op == OConst && y.c == 0 {
			return c.False
		}
		if x.op == OZext && y.op == OConst && y.c > mask(x.a[0].w) {
			return c.True
		}
	case OUle:
		if x.op == OConst && x.c == 0 {
			return c.True
		}
		if y.op == OConst && y.c == mask(y.w) {
			return c.True
		}
	case OSlt:
		// zext(a) < 0 is false
		if x.op == OZext && y.op == OConst && sx(y.c, y.w) <= 0 {
			return c.False
		}
		if x.op == OZext && y.op == OConst && sx(y.c, y.w) > int64(mask(x.a[0].w)) {
			return c.True
		}
	case OSle:
		if x.op == OConst && x.c == 0 && y.op == OZext {
			return c.True
		}
	}
	return c.mk(op, 0, 0, "", x, y)
}

func (c *TermCtx) Not(x *Term) *Term {
	if x.w != 0 {
		panic("Not on non-bool")
	}
	if x.op == OConst {
		return c.Bool(x.c == 0)
	}
	if x.op == OBNot {
		return x.a[0]
	}
	return c.mk(OBNot, 0, 0, "", x)
}

func (c *TermCtx) And(x, y *Term) *Term {
	if x.IsFalse() || y.IsFalse() {
		return c.False
	}
	if x.IsTrue() {
		return y
	}
	if y.IsTrue() {
		return x
	}
	if x == y {
		return x
	}
	if (x.op == OBNot && x.a[0] == y) || (y.op == OBNot && y.a[0] == x) {
		return c.False
	}
	if x.id > y.id {
		x, y = y, x
	}
	return c.mk(OBAnd, 0, 0, "", x, y)
}

func (c *TermCtx) Or(x, y *Term) *Term {
	if x.IsTrue() || y.IsTrue() {
		return c.True
	}
	if x.IsFalse() {
		return y
	}
	if y.IsFalse() {
		return x
	}
	if x == y {
		return x
	}
	if (x.op == OBNot && x.a[0] == y) || (y.op == OBNot && y.a[0] == x) {
		return c.True
	}
	if x.id > y.id {
		x, y = y, x
	}
	return c.mk(OBOr, 0, 0, "", x, y)
}

// ---- evaluation under a concrete assignment of the variables ----

type Model struct {
	vals map[*Term]uint64 // variable -> value
	memo map[*Term]uint64
}

func NewModel() *Model { return &Model{vals: map[*Term]uint64{}, memo: map[*Term]uint64{}} }

// Eval returns (value, ok); ok=false when the term contains a UF, a wide
// sub-term or a variable the model does not assign.
func (m *Model) Eval(t *Term) (uint64, bool) {
	if t.op == OConst {
		return t.c, true
	}
	if t.hasUF || t.w > 64 {
		return 0, false
	}
	if v, ok := m.memo[t]; ok {
		return v, true
	}
	v, ok := m.eval1(t)
	if ok {
		m.memo[t] = v
	}
	return v, ok
}

func (m *Model) eval1(t *Term) (uint64, bool) {
	switch t.op {
	case OVar:
		v, ok := m.vals[t]
		if !ok {
			// unconstrained variable: any value will do, pick 0 and remember it
			m.vals[t] = 0
			return 0, true
		}
		return v, true
	case OIte:
		cv, ok := m.Eval(t.a[0])
		if !ok {
			return 0, false
		}
		if cv != 0 {
			return m.Eval(t.a[1])
		}
		return m.Eval(t.a[2])
	case OBAnd:
		x, ok := m.Eval(t.a[0])
		if !ok {
			return 0, false
		}
		if x == 0 {
			return 0, true
		}
		return m.Eval(t.a[1])
	case OBOr:
		x, ok := m.Eval(t.a[0])
		if !ok {
			return 0, false
		}
		if x != 0 {
			return 1, true
		}
		return m.Eval(t.a[1])
	}
	var av [3]uint64
	for i, a := range t.a {
		if a.w > 64 {
			return 0, false
		}
		v, ok := m.Eval(a)
		if !ok {
			return 0, false
		}
		av[i] = v
	}
	b2u := func(b bool) uint64 {
		if b {
			return 1
		}
		return 0
	}
	switch t.op {
	case ONot:
		return ^av[0] & mask(t.w), true
	case ONeg:
		return -av[0] & mask(t.w), true
	case OBNot:
		return b2u(av[0] == 0), true
	case OConcat:
		return av[0]<<uint(t.a[1].w) | av[1], true
	case OExtract:
		hi, lo := int(t.c>>16), int(t.c&0xffff)
		return (av[0] >> uint(lo)) & mask(hi-lo+1), true
	case OZext:
		return av[0], true
	case OSext:
		return uint64(sx(av[0], t.a[0].w)) & mask(t.w), true
	case OEq:
		return b2u(av[0] == av[1]), true
	case OUlt:
		return b2u(av[0] < av[1]), true
	case OUle:
		return b2u(av[0] <= av[1]), true
	case OSlt:
		return b2u(sx(av[0], t.a[0].w) < sx(av[1], t.a[0].w)), true
	case OSle:
		return b2u(sx(av[0], t.a[0].w) <= sx(av[1], t.a[0].w)), true
	}
	if v, ok := fold2(t.op, t.w, av[0], av[1]); ok {
		return v, true
	}
	return 0, false
}

// ---- term-level helpers used as intrinsics ----

// PopCount builds the SWAR population count of x (result same width).
func (c *TermCtx) PopCount(x *Term) *Term {
	if x.op == OConst {
		return c.Const(x.w, uint64(bits.OnesCount64(x.c)))
	}
	w := x.w
	k := func(v uint64) *Term { return c.Const(w, v) }
	sh := func(t *Term, n uint64) *Term { return c.Bin(OLshr, t, k(n)) }
	t := x
	if w < 64 {
		t = c.Zext(x, 64)
		w = 64
	}
	t = c.Bin(OSub, t, c.Bin(OAnd, sh(t, 1), k(0x5555555555555555)))
	t = c.Bin(OAdd, c.Bin(OAnd, t, k(0x3333333333333333)), c.Bin(OAnd, sh(t, 2), k(0x3333333333333333)))
	t = c.Bin(OAnd, c.Bin(OAdd, t, sh(t, 4)), k(0x0f0f0f0f0f0f0f0f))
	t = c.Bin(OAdd, t, sh(t, 8))
	t = c.Bin(OAdd, t, sh(t, 16))
	t = c.Bin(OAdd, t, sh(t, 32))
	t = c.Bin(OAnd, t, k(0x7f))
	if x.w < 64 {
		return c.Extract(t, x.w-1, 0)
	}
	return t
}

// BitLen builds bits.Len(x) (number of bits needed), result same width, as an ite chain.
func (c *TermCtx) BitLen(x *Term) *Term {
	if x.op == OConst {
		return c.Const(x.w, uint64(bits.Len64(x.c)))
	}
	res := c.Const(x.w, 0)
	for i := 0; i < x.w; i++ {
		// if bit i set (scanning upward) the result is i+1
		bit := c.Eq(c.Extract(x, i, i), c.Const(1, 1))
		res = c.Ite(bit, c.Const(x.w, uint64(i+1)), res)
	}
	return res
}

// TrailingZeros builds bits.TrailingZeros(x), result same width.
func (c *TermCtx) TrailingZeros(x *Term) *Term {
	if x.op == OConst {
		if x.c == 0 {
			return c.Const(x.w, uint64(x.w))
		}
		return c.Const(x.w, uint64(bits.TrailingZeros64(x.c)))
	}
	res := c.Const(x.w, uint64(x.w))
	for i := x.w - 1; i >= 0; i-- {
		bit := c.Eq(c.Extract(x, i, i), c.Const(1, 1))
		res = c.Ite(bit, c.Const(x.w, uint64(i)), res)
	}
	return res
}

func (t *Term) String() string {
	switch t.op {
	case OConst:
		if t.w == 0 {
			if t.c == 1 {
				return "true"
			}
			return "false"
		}
		return fmt.Sprintf("%d:%d", t.c, t.w)
	case OVar:
		return t.name
	}
	return fmt.Sprintf("t%d", t.id)
}

// VarsOf returns the sorted ids of the variables below t; each UF symbol counts as one
// pseudo-variable (negative id) so that all its applications stay in one slice.
func (c *TermCtx) VarsOf(t *Term) []int {
	if t.varsDone {
		return t.vars
	}
	switch t.op {
	case OConst:
	case OVar:
		t.vars = []int{t.id}
	default:
		var acc []int
		for _, a := range t.a {
			acc = mergeSorted(acc, c.VarsOf(a))
		}
		if t.op == OUF {
			id, ok := c.ufVarID[t.name]
			if !ok {
				id = -(len(c.ufVarID) + 1)
				c.ufVarID[t.name] = id
			}
			acc = mergeSorted(acc, []int{id})
		}
		t.vars = acc
	}
	t.varsDone = true
	return t.vars
}

func mergeSorted(a, b []int) []int {
	if len(a) == 0 {
		return b
	}
	if len(b) == 0 {
		return a
	}
	out := make([]int, 0, len(a)+len(b))
	i, j := 0, 0
	for i < len(a) && j < len(b) {
		switch {
		case a[i] < b[j]:
			out = append(out, a[i])
			i++
		case a[i] > b[j]:
			out = append(out, b[j])
			j++
		default:
			out = append(out, a[i])
			i++
			j++
		}
	}
	out = append(out, a[i:]...)
	out = append(out, b[j:]...)
	return out
}

// groupProbe is a tautology over v that is not folded away (used to address v's slice in a query).
func (c *TermCtx) groupProbe(v *Term) *Term {
	if p, ok := c.probes[v]; ok {
		return p
	}
	var p *Term
	if v.w == 0 {
		p = c.mk(OBOr, 0, 0, "", v, c.mk(OBNot, 0, 0, "", v))
	} else {
		p = c.mk(OUle, 0, 0, "", v, v)
	}
	c.probes[v] = p
	return p
}

// Deep renders the term as an s-expression (debugging).
func (t *Term) Deep(depth int) string {
	if t.op == OConst || t.op == OVar || depth == 0 {
		return t.String()
	}
	s := "(" + opSMT[t.op]
	if t.op == OExtract {
		s = fmt.Sprintf("(extract[%d:%d]", t.c>>16, t.c&0xffff)
	}
	if t.op == OZext {
		s = "(zext"
	}
	if t.op == OSext {
		s = "(sext"
	}
	if t.op == OUF {
		s = "(" + t.name
	}
	for _, a := range t.a {
		s += " " + a.Deep(depth-1)
	}
	return s + ")"
}

func hmix(h, x uint64) uint64 {
	h ^= x + 0x9e3779b97f4a7c15 + (h << 6) + (h >> 2)
	h *= 0xff51afd7ed558ccd
	h ^= h >> 33
	return h
}

func (t *Term) structHash() {
	a := uint64(t.op)<<8 | uint64(t.w)<<24 | 0x51
	b := uint64(t.op)*0x9e3779b1 + uint64(t.w)*31 + 7
	a = hmix(a, t.c)
	b = hmix(b, t.c^0xdeadbeefcafe)
	for i := 0; i < len(t.name); i++ {
		a = hmix(a, uint64(t.name[i]))
		b = hmix(b, uint64(t.name[i])*131+uint64(i))
	}
	for _, x := range t.a {
		a = hmix(a, x.h1)
		b = hmix(b, x.h2)
	}
	t.h1, t.h2 = a, b
}

// extractCheap: extracting [hi:lo] from t certainly simplifies (constant, or a shift that moves the
// extracted bits out / maps them to a plain sub-extract, or an extension whose source covers them).
func extractCheap(t *Term, hi, lo int) bool {
	switch t.op {
	case OConst:
		return true
	case OShl:
		if k := t.a[1]; k.op == OConst {
			return hi < int(k.c) || lo >= int(k.c)
		}
	case OLshr:
		return t.a[1].op == OConst
	case OZext:
		return hi < t.a[0].w || lo >= t.a[0].w
	}
	return false
}
