package main

import (
	"fmt"
	"go/types"
	"strings"

	"golang.org/x/tools/go/ssa"
)

type intrinsic func(r *Run, caller *frame, fn *ssa.Function, args []Value) Value

func (ex *Explorer) intrinsicFor(fn *ssa.Function) intrinsic {
	if fn.Pkg == nil && fn.Origin() == nil && fn.Parent() != nil {
		return nil // anonymous function
	}
	key := fnKey(fn)
	if h, ok := ex.intrinsics[key]; ok {
		return h
	}
	return nil
}

var fnKeyCache = struct {
	m map[*ssa.Function]string
}{}

func fnKey(fn *ssa.Function) string {
	if o := fn.Origin(); o != nil {
		fn = o
	}
	return fn.String()
}

func (r *Run) str(v Value) string {
	s, ok := r.concreteString(v.(Str))
	if !ok {
		panic(engineErr{"vx: string argument must be constant"})
	}
	return s
}

func resultWidth(fn *ssa.Function) int {
	w, _, _ := intInfo(fn.Signature.Results().At(0).Type())
	return w
}

func (ex *Explorer) registerIntrinsics() {
	m := map[string]intrinsic{}
	ex.intrinsics = m
	input := func(r *Run, caller *frame, fn *ssa.Function, args []Value) Value {
		return r.NewInput(r.str(args[0]), resultWidth(fn))
	}
	for _, n := range []string{"Int", "Int64", "Int32", "Int16", "Int8", "Uint", "Uint64", "Uint32", "Uint16", "Uint8", "Byte", "Bool", "Rune"} {
		m["vh/vx."+n] = input
	}
	m["vh/vx.Bytes"] = func(r *Run, caller *frame, fn *ssa.Function, args []Value) Value {
		n := r.concInt(args[0], types.Typ[types.Int], r.w.ex.cfg.MaxFork, "vx.Bytes length")
		name := r.str(args[1])
		o := r.allocArray(types.Typ[types.Uint8], n, "vx.Bytes")
		for i := 0; i < n; i++ {
			o.cells[i] = r.NewInput(fmt.Sprintf("%s_%d", name, i), 8)
		}
		return Slice{obj: o, len: n, cap: n}
	}
	m["vh/vx.Choose"] = func(r *Run, caller *frame, fn *ssa.Function, args []Value) Value {
		n := r.concInt(args[0], types.Typ[types.Int], r.w.ex.cfg.MaxFork, "vx.Choose n")
		v := r.Choose(n, 'h')
		r.chooses = append(r.chooses, int64(v))
		return r.ctx().Const(64, uint64(v))
	}
	m["vh/vx.Param"] = func(r *Run, caller *frame, fn *ssa.Function, args []Value) Value {
		name := r.str(args[0])
		def := r.termOf(args[1], "vx.Param")
		if v, ok := r.w.ex.cfg.Params[name]; ok {
			return r.ctx().Const(64, uint64(v))
		}
		return def
	}
	m["vh/vx.Assume"] = func(r *Run, caller *frame, fn *ssa.Function, args []Value) Value {
		r.Assume(r.termOf(args[0], "vx.Assume"))
		return nil
	}
	m["vh/vx.Assert"] = func(r *Run, caller *frame, fn *ssa.Function, args []Value) Value {
		msg := r.str(args[1])
		r.Assert(r.termOf(args[0], "vx.Assert"), msg, msg)
		return nil
	}
	m["vh/vx.AssertSig"] = func(r *Run, caller *frame, fn *ssa.Function, args []Value) Value {
		r.Assert(r.termOf(args[0], "vx.AssertSig"), r.str(args[1]), r.str(args[2]))
		return nil
	}
	m["vh/vx.Fail"] = func(r *Run, caller *frame, fn *ssa.Function, args []Value) Value {
		r.Assert(r.ctx().False, r.str(args[0]), r.str(args[1]))
		return nil
	}
	m["vh/vx.Cover"] = func(r *Run, caller *frame, fn *ssa.Function, args []Value) Value {
		r.covers[r.str(args[0])]++
		return nil
	}
	m["vh/vx.Symbolic"] = func(r *Run, caller *frame, fn *ssa.Function, args []Value) Value {
		return r.ctx().True
	}
	m["vh/vx.Done"] = func(r *Run, caller *frame, fn *ssa.Function, args []Value) Value {
		panic(pathEnd{"vx.Done"})
	}
	m["vh/vx.Concrete"] = func(r *Run, caller *frame, fn *ssa.Function, args []Value) Value {
		t := r.termOf(args[0], "vx.Concrete")
		return r.ctx().Const(t.w, r.Concretize(t, r.w.ex.cfg.MaxFork, "vx.Concrete"))
	}
	boolOp := func(f func(c *TermCtx, a, b *Term) *Term) intrinsic {
		return func(r *Run, caller *frame, fn *ssa.Function, args []Value) Value {
			return f(r.ctx(), r.termOf(args[0], "vx bool op"), r.termOf(args[1], "vx bool op"))
		}
	}
	m["vh/vx.And"] = boolOp(func(c *TermCtx, a, b *Term) *Term { return c.And(a, b) })
	m["vh/vx.Or"] = boolOp(func(c *TermCtx, a, b *Term) *Term { return c.Or(a, b) })
	m["vh/vx.Implies"] = boolOp(func(c *TermCtx, a, b *Term) *Term { return c.Or(c.Not(a), b) })
	m["vh/vx.Iff"] = boolOp(func(c *TermCtx, a, b *Term) *Term { return c.Eq(a, b) })
	m["vh/vx.Not"] = func(r *Run, caller *frame, fn *ssa.Function, args []Value) Value {
		return r.ctx().Not(r.termOf(args[0], "vx.Not"))
	}
	ite := func(r *Run, caller *frame, fn *ssa.Function, args []Value) Value {
		return r.ctx().Ite(r.termOf(args[0], "vx.Ite"), r.termOf(args[1], "vx.Ite"), r.termOf(args[2], "vx.Ite"))
	}
	for _, n := range []string{"Ite", "IteInt", "IteU8", "IteU32", "IteU64", "IteBool", "IteRune", "IteU16"} {
		m["vh/vx."+n] = ite
	}
	// branch-free byte-slice / string equality
	m["vh/vx.EqBytes"] = func(r *Run, caller *frame, fn *ssa.Function, args []Value) Value {
		a, b := args[0].(Slice), args[1].(Slice)
		c := r.ctx()
		if a.len != b.len {
			return c.False
		}
		res := c.True
		ab, bb := r.sliceBytes(a), r.sliceBytes(b)
		for i := range ab {
			res = c.And(res, c.Eq(ab[i], bb[i]))
		}
		return res
	}
	m["vh/vx.EqStr"] = func(r *Run, caller *frame, fn *ssa.Function, args []Value) Value {
		return r.strEq(args[0].(Str), args[1].(Str))
	}
	m["vh/vx.EqInts"] = func(r *Run, caller *frame, fn *ssa.Function, args []Value) Value {
		a, b := args[0].(Slice), args[1].(Slice)
		c := r.ctx()
		if a.len != b.len {
			return c.False
		}
		res := c.True
		for i := 0; i < a.len; i++ {
			res = c.And(res, c.Eq(a.obj.cells[a.off+i].(*Term), b.obj.cells[b.off+i].(*Term)))
		}
		return res
	}
	uf := func(r *Run, caller *frame, fn *ssa.Function, args []Value) Value {
		name := r.str(args[0])
		sl := args[1].(Slice)
		var ts []*Term
		for i := 0; i < sl.len; i++ {
			ts = append(ts, r.termOf(sl.obj.cells[sl.off+i], "vx.UF arg"))
		}
		t := r.ctx().UF(name, resultWidth(fn), ts...)
		r.noteUF(t)
		return t
	}
	m["vh/vx.UFInt"] = uf
	m["vh/vx.UFBool"] = uf
	m["vh/vx.UFByte"] = uf
	m["vh/vx.Clock"] = func(r *Run, caller *frame, fn *ssa.Function, args []Value) Value {
		r.sched.clock++
		return r.ctx().Const(64, uint64(r.sched.clock))
	}
	m["vh/vx.Observe"] = func(r *Run, caller *frame, fn *ssa.Function, args []Value) Value {
		label := r.str(args[0])
		sl := args[1].(Slice)
		for i := 0; i < sl.len; i++ {
			r.observe(label, sl.obj.cells[sl.off+i])
		}
		return nil
	}
	m["vh/vx.ObserveBytes"] = func(r *Run, caller *frame, fn *ssa.Function, args []Value) Value {
		label := r.str(args[0])
		sl := args[1].(Slice)
		r.obs = append(r.obs, obsRec{label: label + ".len", t: r.ctx().Const(64, uint64(sl.len))})
		for _, b := range r.sliceBytes(sl) {
			r.obs = append(r.obs, obsRec{label: label, t: b})
		}
		return nil
	}
	m["vh/vx.ObserveStr"] = func(r *Run, caller *frame, fn *ssa.Function, args []Value) Value {
		label := r.str(args[0])
		s := args[1].(Str)
		r.obs = append(r.obs, obsRec{label: label + ".len", t: r.ctx().Const(64, uint64(s.n))})
		for _, b := range r.strBytes(s) {
			r.obs = append(r.obs, obsRec{label: label, t: b})
		}
		return nil
	}
	m["vh/vx.IsSymbolicEngine"] = func(r *Run, caller *frame, fn *ssa.Function, args []Value) Value {
		return r.ctx().True
	}
	m["vh/vx.SteerRand"] = func(r *Run, caller *frame, fn *ssa.Function, args []Value) Value { return nil }
	m["github.com/welllog/golib/zzshim/ctl.Enter"] = func(r *Run, caller *frame, fn *ssa.Function, args []Value) Value { return nil }
	m["vh/vx.Gate"] = func(r *Run, caller *frame, fn *ssa.Function, args []Value) Value {
		r.sched.point("vx.Gate")
		return nil
	}

	m["github.com/welllog/golib/zzshim/ctl.Gate"] = m["vh/vx.Gate"]

	registerStdIntrinsics(m)
	// the gated shims a harness may use for its own bookkeeping are the operations they wrap
	const shim = "github.com/welllog/golib/zzshim/"
	for k, h := range m {
		if strings.HasPrefix(k, "sync/atomic.") {
			m[shim+"satomic."+strings.TrimPrefix(k, "sync/atomic.")] = h
		}
	}
	m[shim+"sruntime.Gosched"] = m["runtime.Gosched"]
}

type obsRec struct {
	label string
	t     *Term
}

func (r *Run) observe(label string, v Value) {
	if it, ok := v.(Iface); ok {
		v = it.v
	}
	switch x := v.(type) {
	case *Term:
		r.obs = append(r.obs, obsRec{label, x})
	case Str:
		r.obs = append(r.obs, obsRec{label + ".len", r.ctx().Const(64, uint64(x.n))})
		for _, b := range r.strBytes(x) {
			r.obs = append(r.obs, obsRec{label, b})
		}
	case Slice:
		r.obs = append(r.obs, obsRec{label + ".len", r.ctx().Const(64, uint64(x.len))})
		for i := 0; i < x.len; i++ {
			if t, ok := x.obj.cells[x.off+i].(*Term); ok {
				r.obs = append(r.obs, obsRec{label, t})
			}
		}
	default:
		r.unsupported("vx.Observe of %T", v)
	}
}

func (r *Run) noteUF(t *Term) {
	if t.op == OUF {
		r.ufApps = append(r.ufApps, t)
	}
}

func has(s, sub string) bool { return strings.Contains(s, sub) }
