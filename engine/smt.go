package main

// One long-lived solver process per worker, SMT-LIB2 over a pipe.

import (
	"bufio"
	"sync"
	"os"
	"fmt"
	"io"
	"os/exec"
	"strconv"
	"strings"
	"time"
)

type Res int

const (
	Unsat Res = iota
	Sat
	Unknown
)

func (r Res) String() string { return [...]string{"unsat", "sat", "unknown"}[r] }

type Solver struct {
	cmd    *exec.Cmd
	in     *bufio.Writer
	inRaw  io.WriteCloser
	ctx    *TermCtx
	nSat   int
	nUnsat int
	nUnk   int
	dur    time.Duration
	log    *bufio.Writer // optional transcript
	errs   []string
	depth  int
	timeoutMs int
	valDur time.Duration
	litTerm map[int]*Term
	gen     int
	restarted bool
	lines   chan string
	dead    bool
	Restarts int
	pendingCmd string
}

func NewSolver(ctx *TermCtx, timeoutMs int) (*Solver, error) {
	s := &Solver{ctx: ctx, timeoutMs: timeoutMs, litTerm: map[int]*Term{}, gen: nextSolverGen()}
	if err := s.start(); err != nil {
		return nil, err
	}
	return s, nil
}

var solverGenMu sync.Mutex
var solverGen int

func nextSolverGen() int {
	solverGenMu.Lock()
	defer solverGenMu.Unlock()
	solverGen++
	return solverGen
}

func (s *Solver) start() error {
	cmd := exec.Command(solverPath(), "-in", "-smt2")
	in, err := cmd.StdinPipe()
	if err != nil {
		return err
	}
	out, err := cmd.StdoutPipe()
	if err != nil {
		return err
	}
	cmd.Stderr = cmd.Stdout
	if err := cmd.Start(); err != nil {
		return err
	}
	s.cmd, s.inRaw = cmd, in
	s.in = bufio.NewWriterSize(in, 1<<16)
	s.lines = make(chan string, 1024)
	s.dead = false
	go func(ch chan string, rd *bufio.Reader) {
		for {
			line, err := rd.ReadString('\n')
			if err != nil {
				close(ch)
				return
			}
			ch <- strings.TrimSpace(line)
		}
	}(s.lines, bufio.NewReaderSize(out, 1<<16))
	if p := os.Getenv("GOSYM_SMTLOG"); p != "" && s.log == nil {
		f, _ := os.Create(p)
		s.log = bufio.NewWriter(f)
	}
	s.send("(set-option :global-declarations true)")
	s.send("(set-option :produce-models true)")
	s.send("(set-option :produce-unsat-cores true)")
	s.send(fmt.Sprintf("(set-option :timeout %d)", s.timeoutMs))
	return nil
}

// restart kills a solver that does not answer and starts a fresh one; every term must be re-defined
// (generation number) and the engine's run-level scope is gone.
func (s *Solver) restart() {
	if s.cmd != nil {
		s.inRaw.Close()
		s.cmd.Process.Kill()
		s.cmd.Wait()
	}
	s.Restarts++
	s.gen = nextSolverGen()
	s.litTerm = map[int]*Term{}
	s.depth = 0
	for _, d := range s.ctx.ufs {
		d.emit = false
	}
	if err := s.start(); err != nil {
		panic(engineErr{"cannot restart solver: " + err.Error()})
	}
}

func (s *Solver) Close() {
	if s.cmd != nil {
		s.inRaw.Close()
		s.cmd.Process.Kill()
		s.cmd.Wait()
		s.cmd = nil
		s.dead = true
	}
}

func (s *Solver) send(line string) {
	s.in.WriteString(line)
	s.in.WriteByte('\n')
	if s.log != nil {
		s.log.WriteString(line)
		s.log.WriteByte('\n')
	}
}

func sortSMT(w int) string {
	if w == 0 {
		return "Bool"
	}
	return "(_ BitVec " + strconv.Itoa(w) + ")"
}

func (s *Solver) ref(t *Term) string {
	switch t.op {
	case OConst:
		if t.w == 0 {
			if t.c == 1 {
				return "true"
			}
			return "false"
		}
		return "(_ bv" + strconv.FormatUint(t.c, 10) + " " + strconv.Itoa(t.w) + ")"
	case OVar:
		return t.name
	}
	return "t" + strconv.Itoa(t.id)
}

// define makes sure t (and everything below it) is defined in the session.
func (s *Solver) define(t *Term) {
	if t.emit == s.gen || t.op == OConst {
		return
	}
	// iterative post-order to avoid deep host recursion on long chains
	type fr struct {
		t *Term
		i int
	}
	stack := []fr{{t, 0}}
	for len(stack) > 0 {
		f := &stack[len(stack)-1]
		if f.t.emit == s.gen || f.t.op == OConst {
			stack = stack[:len(stack)-1]
			continue
		}
		if f.i < len(f.t.a) {
			ch := f.t.a[f.i]
			f.i++
			if ch.emit != s.gen && ch.op != OConst {
				stack = append(stack, fr{ch, 0})
			}
			continue
		}
		s.define1(f.t)
		f.t.emit = s.gen
		stack = stack[:len(stack)-1]
	}
}

func (s *Solver) define1(t *Term) {
	switch t.op {
	case OVar:
		s.send("(declare-const " + t.name + " " + sortSMT(t.w) + ")")
		return
	case OUF:
		d := s.ctx.ufs[t.name]
		if !d.emit {
			var sb strings.Builder
			sb.WriteString("(declare-fun uf_" + d.name + " (")
			for _, w := range d.argW {
				sb.WriteString(sortSMT(w) + " ")
			}
			sb.WriteString(") " + sortSMT(d.resW) + ")")
			s.send(sb.String())
			d.emit = true
		}
	}
	s.send(s.defString(t))
}

// defString renders the define-fun of a non-variable term.
func (s *Solver) defString(t *Term) string {
	var sb strings.Builder
	sb.WriteString("(define-fun t" + strconv.Itoa(t.id) + " () " + sortSMT(t.w) + " ")
	switch t.op {
	case OExtract:
		fmt.Fprintf(&sb, "((_ extract %d %d) %s)", t.c>>16, t.c&0xffff, s.ref(t.a[0]))
	case OZext:
		fmt.Fprintf(&sb, "((_ zero_extend %d) %s)", t.w-t.a[0].w, s.ref(t.a[0]))
	case OSext:
		fmt.Fprintf(&sb, "((_ sign_extend %d) %s)", t.w-t.a[0].w, s.ref(t.a[0]))
	case OUF:
		sb.WriteString("(uf_" + t.name)
		for _, a := range t.a {
			sb.WriteString(" " + s.ref(a))
		}
		sb.WriteString(")")
	default:
		name, ok := opSMT[t.op]
		if !ok {
			panic(fmt.Sprintf("define1: op %d", t.op))
		}
		sb.WriteString("(" + name)
		for _, a := range t.a {
			sb.WriteString(" " + s.ref(a))
		}
		sb.WriteString(")")
	}
	sb.WriteString(")")
	return sb.String()
}

func (s *Solver) Push() { s.send("(push 1)"); s.depth++ }
func (s *Solver) Pop() {
	if s.depth == 0 {
		return
	}
	s.send("(pop 1)")
	s.depth--
}

func (s *Solver) Assert(t *Term) {
	if t.IsTrue() {
		return
	}
	s.define(t)
	s.send("(assert " + s.ref(t) + ")")
}

type solverHung struct{}

func (s *Solver) readLine() string {
	limit := time.Duration(s.timeoutMs)*time.Millisecond*2 + 10*time.Second
	select {
	case line, ok := <-s.lines:
		if !ok {
			panic(engineErr{"solver pipe closed"})
		}
		return line
	case <-time.After(limit):
		panic(solverHung{})
	}
}

// Check runs (check-sat) in the current scope.
func (s *Solver) Check() (res Res) {
	defer func() {
		if x := recover(); x != nil {
			if _, ok := x.(solverHung); ok {
				s.nUnk++
				s.restart()
				s.restarted = true
				res = Unknown
				return
			}
			panic(x)
		}
	}()
	if s.pendingCmd != "" {
		s.send(s.pendingCmd)
		s.pendingCmd = ""
	} else {
		s.send("(check-sat)")
	}
	t0 := time.Now()
	s.in.Flush()
	if s.log != nil {
		s.log.Flush()
	}
	for {
		line := s.readLine()
		switch {
		case line == "sat":
			s.nSat++
			s.dur += time.Since(t0)
			return Sat
		case line == "unsat":
			s.nUnsat++
			s.dur += time.Since(t0)
			return Unsat
		case line == "unknown" || line == "timeout":
			s.nUnk++
			s.dur += time.Since(t0)
			return Unknown
		case line == "":
		default:
			// any other output (in particular "(error ...") makes the answer untrustworthy
			s.errs = append(s.errs, line)
			if strings.HasPrefix(line, "(error") {
				panic(engineErr{"solver error: " + line})
			}
		}
	}
}

// CheckWith = push; assert extra; check; [model]; pop
func (s *Solver) CheckWith(extra *Term, wantModel []*Term) (Res, map[*Term]uint64) {
	s.Push()
	s.Assert(extra)
	r := s.Check()
	var m map[*Term]uint64
	if r == Sat && wantModel != nil {
		m = s.Values(wantModel)
	}
	s.Pop()
	return r, m
}

// Values fetches the model values of the given terms (width <= 64) after a sat answer.
func (s *Solver) Values(ts []*Term) map[*Term]uint64 {
	t0 := time.Now()
	defer func() { s.valDur += time.Since(t0) }()
	res := map[*Term]uint64{}
	var q []*Term
	for _, t := range ts {
		if t == nil {
			continue
		}
		if t.op == OConst {
			res[t] = t.c
			continue
		}
		if t.w > 64 || t.emit != s.gen {
			continue
		}
		q = append(q, t)
	}
	for len(q) > 0 {
		n := len(q)
		if n > 200 {
			n = 200
		}
		var sb strings.Builder
		sb.WriteString("(get-value (")
		for _, t := range q[:n] {
			sb.WriteString(s.ref(t) + " ")
		}
		sb.WriteString("))")
		s.send(sb.String())
		s.in.Flush()
		txt := s.readSexp()
		vals := parseValues(txt)
		if len(vals) != n {
			panic(engineErr{"get-value: cannot parse " + txt})
		}
		for i, t := range q[:n] {
			res[t] = vals[i]
		}
		q = q[n:]
	}
	return res
}

func (s *Solver) readSexp() string {
	var sb strings.Builder
	depth := 0
	started := false
	for {
		line := s.readLine()
		if strings.HasPrefix(line, "(error") {
			panic(engineErr{"solver error: " + line})
		}
		sb.WriteString(line)
		sb.WriteByte(' ')
		for _, ch := range line {
			if ch == '(' {
				depth++
				started = true
			} else if ch == ')' {
				depth--
			}
		}
		if started && depth <= 0 {
			return sb.String()
		}
	}
}

// parseValues extracts the value literals from "((name val) (name val) ...)".
func parseValues(txt string) []uint64 {
	var out []uint64
	i := 0
	n := len(txt)
	for i < n {
		switch {
		case strings.HasPrefix(txt[i:], "#x"):
			j := i + 2
			for j < n && isHex(txt[j]) {
				j++
			}
			v, _ := strconv.ParseUint(txt[i+2:j], 16, 64)
			out = append(out, v)
			i = j
		case strings.HasPrefix(txt[i:], "#b"):
			j := i + 2
			for j < n && (txt[j] == '0' || txt[j] == '1') {
				j++
			}
			v, _ := strconv.ParseUint(txt[i+2:j], 2, 64)
			out = append(out, v)
			i = j
		case strings.HasPrefix(txt[i:], "(_ bv"):
			j := i + 5
			k := j
			for k < n && txt[k] >= '0' && txt[k] <= '9' {
				k++
			}
			v, _ := strconv.ParseUint(txt[j:k], 10, 64)
			out = append(out, v)
			for k < n && txt[k] != ')' {
				k++
			}
			i = k
		case strings.HasPrefix(txt[i:], " true)"):
			out = append(out, 1)
			i += 6
		case strings.HasPrefix(txt[i:], " false)"):
			out = append(out, 0)
			i += 7
		default:
			i++
		}
	}
	return out
}

func isHex(b byte) bool {
	return (b >= '0' && b <= '9') || (b >= 'a' && b <= 'f') || (b >= 'A' && b <= 'F')
}

type engineErr struct{ msg string }

func (e engineErr) Error() string { return e.msg }

// solverPath: z3 5.1.0 (z3-new) is the primary solver (measured 3-4x faster than 4.8.12 on
// the incremental bit-vector queries the engine produces); GOSYM_SOLVER overrides.
func solverPath() string {
	if p := os.Getenv("GOSYM_SOLVER"); p != "" {
		return p
	}
	if _, err := os.Stat("/usr/local/bin/z3-new"); err == nil {
		return "/usr/local/bin/z3-new"
	}
	return "/usr/bin/z3"
}

// lit returns the name of the indicator literal of t, declaring it on first use.
func (s *Solver) lit(t *Term) string {
	name := "p" + strconv.Itoa(t.id)
	if t.plit != s.gen {
		s.send("(declare-const " + name + " Bool)")
		t.plit = s.gen
		s.litTerm[t.id] = t
	}
	return name
}

// AssertImp asserts (=> p_t t) in the current scope.
func (s *Solver) AssertImp(t *Term) {
	s.define(t)
	s.send("(assert (=> " + s.lit(t) + " " + s.ref(t) + "))")
}

// CheckAssuming decides the conjunction of the given (already AssertImp-ed) terms; on unsat returns the core.
func (s *Solver) CheckAssuming(ts []*Term) (Res, []*Term) {
	var sb strings.Builder
	sb.WriteString("(check-sat-assuming (")
	for _, t := range ts {
		sb.WriteString(s.lit(t))
		sb.WriteByte(' ')
	}
	sb.WriteString("))")
	// reuse Check's reader: send manually
	s.pendingCmd = sb.String()
	res := s.Check()
	if res != Unsat {
		return res, nil
	}
	s.send("(get-unsat-core)")
	s.in.Flush()
	txt := s.readSexp()
	var core []*Term
	for _, f := range strings.Fields(strings.NewReplacer("(", " ", ")", " ").Replace(txt)) {
		if len(f) > 1 && f[0] == 'p' {
			if id, err := strconv.Atoi(f[1:]); err == nil {
				if t := s.litTerm[id]; t != nil {
					core = append(core, t)
				}
			}
		}
	}
	return res, core
}
