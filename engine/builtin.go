package main

import (
	"fmt"
	"go/token"
	"go/types"
	"sort"

	"golang.org/x/tools/go/ssa"
)

var stdSizes = types.StdSizes{WordSize: 8, MaxAlign: 8}

func (r *Run) callBuiltin(caller *frame, fn *ssa.Builtin, args []Value) Value {
	c := r.ctx()
	switch fn.Name() {
	case "append":
		return r.appendOp(fn, args)
	case "copy":
		return r.copyOp(fn, args)
	case "len":
		switch x := args[0].(type) {
		case Str:
			return c.Const(64, uint64(x.n))
		case Slice:
			return c.Const(64, uint64(x.len))
		case *MapObj:
			if x == nil {
				return c.Const(64, 0)
			}
			r.raceReadMap(x)
			return c.Const(64, uint64(x.n))
		case *ChanObj:
			if x == nil {
				return c.Const(64, 0)
			}
			return c.Const(64, uint64(len(x.buf)))
		case Agg:
			at := fn.Type().(*types.Signature).Params().At(0).Type().Underlying().(*types.Array)
			return c.Const(64, uint64(at.Len()))
		case Ptr:
			at := fn.Type().(*types.Signature).Params().At(0).Type().Underlying().(*types.Pointer).Elem().Underlying().(*types.Array)
			return c.Const(64, uint64(at.Len()))
		}
	case "cap":
		switch x := args[0].(type) {
		case Slice:
			return c.Const(64, uint64(x.cap))
		case *ChanObj:
			if x == nil {
				return c.Const(64, 0)
			}
			return c.Const(64, uint64(x.cap))
		case Agg:
			at := fn.Type().(*types.Signature).Params().At(0).Type().Underlying().(*types.Array)
			return c.Const(64, uint64(at.Len()))
		case Ptr:
			at := fn.Type().(*types.Signature).Params().At(0).Type().Underlying().(*types.Pointer).Elem().Underlying().(*types.Array)
			return c.Const(64, uint64(at.Len()))
		}
	case "delete":
		m := args[0].(*MapObj)
		r.mapDelete(m, args[1])
		return nil
	case "clear":
		switch x := args[0].(type) {
		case *MapObj:
			if x != nil {
				r.mapClear(x)
			}
		case Slice:
			et := fn.Type().(*types.Signature).Params().At(0).Type().Underlying().(*types.Slice).Elem()
			z := r.w.zeroCells(et)
			for i := 0; i < x.len; i++ {
				for k := range z {
					r.storeCell(Ptr{obj: x.obj, off: x.off + i*len(z)}, k, z[k])
				}
			}
		}
		return nil
	case "close":
		r.chanClose(caller, args[0].(*ChanObj))
		return nil
	case "print", "println":
		return nil
	case "panic":
		panic(targetPanic{args[0]})
	case "recover":
		return r.doRecover(caller)
	case "min", "max":
		sig := fn.Type().(*types.Signature)
		t := sig.Params().At(0).Type()
		res := args[0]
		for _, a := range args[1:] {
			var less *Term
			if fn.Name() == "min" {
				less = r.binop(token.LSS, t, a, res, t).(*Term)
			} else {
				less = r.binop(token.LSS, t, res, a, t).(*Term)
			}
			if isString(t) {
				if r.Branch(less) {
					res = a
				}
			} else {
				res = c.Ite(less, a.(*Term), res.(*Term))
			}
		}
		return res
	case "ssa:wrapnilchk":
		p := args[0].(Ptr)
		if p.obj == nil {
			r.goPanicRuntime("value method called using nil pointer")
		}
		return p
	case "Sizeof":
		t := fn.Type().(*types.Signature).Params().At(0).Type()
		return c.Const(64, uint64(stdSizes.Sizeof(t)))
	case "String": // unsafe.String(ptr *byte, len)
		p := args[0].(Ptr)
		n := r.concInt(args[1], fn.Type().(*types.Signature).Params().At(1).Type(), r.w.ex.cfg.MaxFork, "unsafe.String len")
		if n == 0 || p.obj == nil {
			return Str{}
		}
		return Str{obj: p.obj, off: p.off, n: n}
	case "StringData":
		s := args[0].(Str)
		if s.obj == nil {
			return Ptr{}
		}
		return Ptr{obj: s.obj, off: s.off}
	case "Slice": // unsafe.Slice(ptr *T, len)
		p := args[0].(Ptr)
		n := r.concInt(args[1], fn.Type().(*types.Signature).Params().At(1).Type(), r.w.ex.cfg.MaxFork, "unsafe.Slice len")
		if p.obj == nil {
			return Slice{}
		}
		return Slice{obj: p.obj, off: p.off, len: n, cap: n}
	case "SliceData":
		s := args[0].(Slice)
		if s.obj == nil {
			return Ptr{}
		}
		return Ptr{obj: s.obj, off: s.off}
	}
	r.unsupported("builtin %s(%T)", fn.Name(), args[0])
	return nil
}

// ---- append / copy ----

var sizeClasses = []int{0, 8, 16, 24, 32, 48, 64, 80, 96, 112, 128, 144, 160, 176, 192, 208, 224, 240, 256, 288, 320, 352, 384, 416, 448, 480, 512, 576, 640, 704, 768, 896, 1024, 1152, 1280, 1408, 1536, 1792, 2048, 2304, 2688, 3072, 3200, 3456, 4096, 4864, 5376, 6144, 6528, 6784, 6912, 8192, 9472, 9728, 10240, 10880, 12288, 13568, 14336, 16384, 18432, 19072, 20480, 21760, 24576, 27264, 28672, 32768}

func roundupsize(size int) int {
	if size <= 32768 {
		i := sort.SearchInts(sizeClasses, size)
		return sizeClasses[i]
	}
	const page = 8192
	return (size + page - 1) / page * page
}

// growCap mirrors runtime.growslice (go1.20+): new capacity for appending to oldCap so that newLen fits.
func growCap(oldCap, newLen, elemSize int) int {
	newcap := oldCap
	doublecap := newcap + newcap
	if newLen > doublecap {
		newcap = newLen
	} else {
		const threshold = 256
		if oldCap < threshold {
			newcap = doublecap
		} else {
			for newcap < newLen {
				newcap += (newcap + 3*threshold) >> 2
			}
		}
	}
	if elemSize == 0 {
		return newcap
	}
	mem := roundupsize(newcap * elemSize)
	return mem / elemSize
}

func (r *Run) appendOp(fn *ssa.Builtin, args []Value) Value {
	sig := fn.Type().(*types.Signature)
	st := sig.Params().At(0).Type().Underlying().(*types.Slice)
	et := st.Elem()
	stride := ncells(et)
	dst := args[0].(Slice)
	// source cells
	var src []Value
	var n int
	switch s := args[1].(type) {
	case Slice:
		n = s.len
		src = make([]Value, n*stride)
		for i := range src {
			r.raceRead(s.obj, s.off+i)
			src[i] = s.obj.cells[s.off+i]
		}
	case Str:
		n = s.n
		src = make([]Value, n)
		for i := range src {
			src[i] = s.obj.cells[s.off+i]
		}
	default:
		panic(engineErr{fmt.Sprintf("append of %T", args[1])})
	}
	if n == 0 {
		return dst
	}
	newLen := dst.len + n
	if newLen <= dst.cap {
		for i, v := range src {
			r.storeCell(Ptr{obj: dst.obj, off: dst.off + dst.len*stride}, i, v)
		}
		return Slice{obj: dst.obj, off: dst.off, len: newLen, cap: dst.cap}
	}
	esz := int(stdSizes.Sizeof(et))
	nc := growCap(dst.cap, newLen, esz)
	o := r.allocArray(et, nc, "append")
	for i := 0; i < dst.len*stride; i++ {
		r.raceRead(dst.obj, dst.off+i)
		o.cells[i] = dst.obj.cells[dst.off+i]
	}
	copy(o.cells[dst.len*stride:], src)
	return Slice{obj: o, off: 0, len: newLen, cap: nc}
}

func (r *Run) copyOp(fn *ssa.Builtin, args []Value) Value {
	dst := args[0].(Slice)
	c := r.ctx()
	var sobj *Obj
	var soff, slen int
	switch s := args[1].(type) {
	case Slice:
		sobj, soff, slen = s.obj, s.off, s.len
	case Str:
		sobj, soff, slen = s.obj, s.off, s.n
	}
	n := dst.len
	if slen < n {
		n = slen
	}
	if n == 0 {
		return c.Const(64, 0)
	}
	stride := ncells(fn.Type().(*types.Signature).Params().At(0).Type().Underlying().(*types.Slice).Elem())
	cells := n * stride
	tmp := make([]Value, cells)
	for i := 0; i < cells; i++ {
		r.raceRead(sobj, soff+i)
		tmp[i] = sobj.cells[soff+i]
	}
	for i := 0; i < cells; i++ {
		r.storeCell(Ptr{obj: dst.obj, off: dst.off}, i, tmp[i])
	}
	return c.Const(64, uint64(n))
}

// ---- maps ----

func (r *Run) newMap(kt, vt types.Type) *MapObj {
	r.w.objSeq++
	return &MapObj{id: r.w.objSeq, kt: kt, vt: vt, pre: r.w.initPhase}
}

type mapUndo struct {
	m       *MapObj
	entries []*mapEntry
	vals    []Value
	del     []bool
	n       int
}

func (r *Run) mapTouch(m *MapObj) {
	if !m.pre || r.w.initPhase {
		return
	}
	for _, u := range r.mundo {
		if u.m == m {
			return
		}
	}
	u := mapUndo{m: m, entries: append([]*mapEntry(nil), m.entries...), n: m.n}
	for _, e := range m.entries {
		u.vals = append(u.vals, e.v)
		u.del = append(u.del, e.deleted)
	}
	r.mundo = append(r.mundo, u)
}

// mapFind returns the entry whose key equals k on this path (forking on key equality), or nil.
func (r *Run) mapFind(m *MapObj, k Value) *mapEntry {
	c := r.ctx()
	var cands []*mapEntry
	var conds []*Term
	for _, e := range m.entries {
		if e.deleted {
			continue
		}
		eq := r.equal(m.kt, e.k, k)
		if eq.IsTrue() {
			return e
		}
		if eq.IsFalse() {
			continue
		}
		if v, ok := r.known(eq); ok {
			if v {
				return e
			}
			continue
		}
		cands = append(cands, e)
		conds = append(conds, eq)
	}
	for i, e := range cands {
		if r.Branch(conds[i]) {
			return e
		}
	}
	_ = c
	return nil
}

func (r *Run) mapLookup(m *MapObj, k Value, mt *types.Map, commaOk bool) Value {
	var e *mapEntry
	if m != nil {
		r.raceReadMap(m)
		e = r.mapFind(m, k)
	}
	var v Value
	if e != nil {
		v = e.v
	} else {
		v = r.w.zero(mt.Elem())
	}
	if commaOk {
		return Tuple{v, r.ctx().Bool(e != nil)}
	}
	return v
}

func (r *Run) mapUpdate(m *MapObj, k, v Value) {
	if m == nil {
		r.goPanicRuntime("assignment to entry in nil map")
	}
	r.raceWriteMap(m)
	r.mapTouch(m)
	if e := r.mapFind(m, k); e != nil {
		e.v = v
		return
	}
	m.entries = append(m.entries, &mapEntry{k: k, v: v})
	m.n++
}

func (r *Run) mapDelete(m *MapObj, k Value) {
	if m == nil {
		return
	}
	r.raceWriteMap(m)
	r.mapTouch(m)
	if e := r.mapFind(m, k); e != nil {
		e.deleted = true
		m.n--
		// compact lazily
		live := m.entries[:0:0]
		for _, x := range m.entries {
			if !x.deleted {
				live = append(live, x)
			}
		}
		m.entries = live
	}
}

func (r *Run) mapClear(m *MapObj) {
	r.raceWriteMap(m)
	r.mapTouch(m)
	for _, e := range m.entries {
		e.deleted = true
	}
	m.entries = nil
	m.n = 0
}

// ---- range iterators ----

type iter struct {
	// map
	m       *MapObj
	entries []*mapEntry
	pos     int
	// string
	s    Str
	spos int
	isStr bool
}

func (r *Run) rangeIter(x Value, t types.Type) Value {
	switch x := x.(type) {
	case *MapObj:
		it := &iter{m: x}
		if x != nil {
			r.raceReadMap(x)
			n := len(x.entries)
			it.entries = make([]*mapEntry, n)
			rot := 0
			if n > 1 {
				switch r.w.ex.cfg.MapOrder {
				case "rotations":
					rot = r.Choose(n, 'o')
				case "two":
					// insertion order or reversed
					if r.Choose(2, 'o') == 1 {
						for i := range it.entries {
							it.entries[i] = x.entries[n-1-i]
						}
						return it
					}
				}
			}
			for i := range it.entries {
				it.entries[i] = x.entries[(i+rot)%n]
			}
		}
		return it
	case Str:
		return &iter{s: x, isStr: true}
	}
	panic(engineErr{fmt.Sprintf("range over %T", x)})
}

func (r *Run) iterNext(fr *frame, it *iter, instr *ssa.Next) Value {
	c := r.ctx()
	if it.isStr {
		if it.spos >= it.s.n {
			return Tuple{c.False, c.Const(64, 0), c.Const(32, 0)}
		}
		rest := Str{it.s.obj, it.s.off + it.spos, it.s.n - it.spos}
		rn, n := r.decodeRune(rest)
		pos := it.spos
		it.spos += n
		return Tuple{c.True, c.Const(64, uint64(pos)), rn}
	}
	tt := instr.Type().(*types.Tuple)
	for it.pos < len(it.entries) {
		e := it.entries[it.pos]
		it.pos++
		if e.deleted {
			continue
		}
		if it.m != nil {
			r.raceReadMap(it.m)
		}
		return Tuple{c.True, e.k, e.v}
	}
	return Tuple{c.False, r.w.zero(tt.At(1).Type()), r.w.zero(tt.At(2).Type())}
}
