package main

// Explorer: loads the program, runs the DFS over decision vectors with a pool of workers.

import (
	"fmt"
	"go/types"
	"os"
	"sort"
	"strings"
	"sync"
	"time"

	"golang.org/x/tools/go/packages"
	"golang.org/x/tools/go/ssa"
	"golang.org/x/tools/go/ssa/ssautil"
)

type Config struct {
	MaxInstr      int64
	MaxDecisions  int
	MaxDepth      int
	MaxAlloc      int
	MaxFork       int // concretisation fan-out
	MaxSymIndex   int // ite-chain length for symbolic indices
	MaxPaths      int64
	MaxGoroutines int
	MaxSchedSteps int
	Preempt       int
	Race          bool
	MapOrder      string // "insertion" | "two" | "rotations"
	Workers       int
	QueryTimeoutMs int
	Params        map[string]int64 // harness parameters (vx.Param)
	StopAtFirst   bool
	MaxViolations int
	Witnesses     int
	WitnessEvery  int64
	MaxCache      int
	SliceOnly     bool
	FallbackTimeoutS int
	DumpPaths     string
	XCheckEvery   int // every n-th solver-decided query is re-decided by two other solvers (0 = off)
	XCheckMax     int // at most this many sampled queries per worker
}

func defaultConfig() Config {
	return Config{MaxInstr: 3_000_000, MaxDecisions: 20000, MaxDepth: 400, MaxAlloc: 1 << 20, MaxFork: 64, MaxSymIndex: 512,
		MaxPaths: 5_000_000, MaxGoroutines: 8, MaxSchedSteps: 2000, Preempt: 2, Race: true, MapOrder: "two", Workers: 16,
		QueryTimeoutMs: 8000, Params: map[string]int64{}, MaxViolations: 50, Witnesses: 12, WitnessEvery: 37, MaxCache: 3000000, FallbackTimeoutS: 120, XCheckEvery: 23, XCheckMax: 2}
}

type Explorer struct {
	cfg         Config
	prog        *ssa.Program
	pkgs        []*packages.Package
	harnessPkg  *ssa.Package
	harnessFn   *ssa.Function
	harnessName string
	runtimeErrT types.Type
	intrinsics  map[string]intrinsic
	initAllow   map[string]bool

	mu       sync.Mutex
	stack    [][]Dec
	inflight int
	cond     *sync.Cond
	stop     bool

	// statistics / evidence
	paths        int64
	pathsOK      int64
	pathsAssumeEnd int64
	aborts       map[string]int
	viols        []*Violation
	violSigs     map[string]bool
	funcs        map[string]bool
	opaque       map[string]bool
	stubs        map[string]bool
	covers       map[string]int
	decisions    int64
	instrs       int64
	asserts      int64
	assertsSym   int64
	samples      []map[string]interface{}
	maxDepthSeen int
	witnesses    []*Witness
	engineErrs   []string

	cacheSh [64]cacheShard
	coreSh  [64]coreShard
	poolSh  [64]poolShard

	methodMu sync.Mutex
	methodCache map[string]*ssa.Function
	implCache   map[string]bool
	totalQueries, qSat, qUnsat, qUnknown, fallbacks int64
	solverDur time.Duration
	initS float64
	coreHits, poolHits int64
	dumpF *os.File
	cacheHits int64
	witnessTick int64
	valDur time.Duration
	xsamples []xsample
}

type Witness struct {
	Inputs  []ReplayInput `json:"inputs"`
	Chooses []int64       `json:"chooses"`
	Obs     []string      `json:"obs"`
	Decs    string        `json:"decisions"`
	UF      []UFEntry     `json:"uf,omitempty"`
	Params  map[string]int64 `json:"params,omitempty"`
}

type Worker struct {
	id        int
	ex        *Explorer
	ctx       *TermCtx
	solver    *Solver
	zeroCache map[types.Type][]Value
	strConsts map[string]Str
	globals   map[*ssa.Global]*Obj
	objSeq    int
	initPhase bool
	nQueries  int64
	fallbacks int64
	fbDur     time.Duration
	qcache    map[qkey]qres
	missByRoots [64]int64
	coreHits, poolHits int64
	cacheHits int64
	funcs     map[*ssa.Function]bool
	xsamples  []xsample
	xseen     int64
}

func (ex *Explorer) push(v []Dec) {
	ex.mu.Lock()
	ex.stack = append(ex.stack, v)
	ex.mu.Unlock()
	ex.cond.Signal()
}

func (ex *Explorer) pop() ([]Dec, bool) {
	ex.mu.Lock()
	defer ex.mu.Unlock()
	for {
		if ex.stop {
			return nil, false
		}
		if n := len(ex.stack); n > 0 {
			v := ex.stack[n-1]
			ex.stack = ex.stack[:n-1]
			ex.inflight++
			return v, true
		}
		if ex.inflight == 0 {
			ex.cond.Broadcast()
			return nil, false
		}
		ex.cond.Wait()
	}
}

func (ex *Explorer) finishOne() {
	ex.mu.Lock()
	ex.inflight--
	if ex.inflight == 0 && len(ex.stack) == 0 {
		ex.cond.Broadcast()
	}
	ex.mu.Unlock()
}

func (w *Worker) noteFunc(fn *ssa.Function) {
	if w.funcs[fn] {
		return
	}
	w.funcs[fn] = true
}

func (ex *Explorer) noteOpaque(name string) {
	ex.mu.Lock()
	ex.opaque[name] = true
	ex.mu.Unlock()
}

func loadProgram(dir string, patterns []string, overlay map[string][]byte) (*ssa.Program, []*packages.Package, error) {
	cfg := &packages.Config{Mode: packages.LoadAllSyntax, Dir: dir, Overlay: overlay,
		Env: append(os.Environ(), "GOFLAGS=-mod=mod", "GOPROXY=off", "GOSUMDB=off", "GOTOOLCHAIN=local")}
	pkgs, err := packages.Load(cfg, patterns...)
	if err != nil {
		return nil, nil, err
	}
	var errs []string
	packages.Visit(pkgs, nil, func(p *packages.Package) {
		for _, e := range p.Errors {
			errs = append(errs, e.Error())
		}
	})
	if len(errs) > 0 {
		return nil, nil, fmt.Errorf("load errors:\n%s", strings.Join(errs, "\n"))
	}
	prog, _ := ssautil.AllPackages(pkgs, ssa.InstantiateGenerics)
	prog.Build()
	return prog, pkgs, nil
}

func (ex *Explorer) stdFunc(pkg, name string) *ssa.Function {
	p := ex.prog.ImportedPackage(pkg)
	if p == nil {
		return nil
	}
	return p.Func(name)
}

func (ex *Explorer) lookupMethod(t types.Type, meth *types.Func) *ssa.Function {
	key := t.String() + "#" + meth.Id()
	ex.methodMu.Lock()
	f, ok := ex.methodCache[key]
	ex.methodMu.Unlock()
	if ok {
		return f
	}
	sel := ex.prog.MethodSets.MethodSet(t).Lookup(meth.Pkg(), meth.Name())
	if sel != nil {
		f = ex.prog.MethodValue(sel)
	}
	ex.methodMu.Lock()
	ex.methodCache[key] = f
	ex.methodMu.Unlock()
	return f
}

func (ex *Explorer) implements(t types.Type, it *types.Interface) bool {
	key := t.String() + "#" + it.String()
	ex.methodMu.Lock()
	v, ok := ex.implCache[key]
	ex.methodMu.Unlock()
	if ok {
		return v
	}
	v = types.Implements(t, it)
	ex.methodMu.Lock()
	ex.implCache[key] = v
	ex.methodMu.Unlock()
	return v
}

func (w *Worker) global(g *ssa.Global) *Obj {
	if o, ok := w.globals[g]; ok {
		return o
	}
	t := g.Type().Underlying().(*types.Pointer).Elem()
	z := w.zeroCells(t)
	w.objSeq++
	o := &Obj{id: w.objSeq, cells: append([]Value(nil), z...), label: "global:" + g.String(), pre: true}
	if g.Pkg != nil && !w.ex.initAllowed(g.Pkg.Pkg.Path()) {
		o.uninit = g.String()
	}
	if s := g.String(); s == "time.UTC" || s == "time.Local" {
		o.uninit = "" // only ever passed to stubbed time functions
	}
	if g.String() == "crypto/rand.Reader" {
		// the entropy source is a stub reader that yields arbitrary bytes
		o.uninit = ""
		if vp := w.ex.prog.ImportedPackage("vh/vstub"); vp != nil && vp.Type("RandReader") != nil {
			rt := vp.Type("RandReader").Type()
			w.objSeq++
			ro := &Obj{id: w.objSeq, cells: append([]Value(nil), w.zeroCells(rt)...), label: "vstub.RandReader", pre: true}
			o.cells[0] = Iface{t: types.NewPointer(rt), v: Ptr{obj: ro}}
		}
	}
	w.globals[g] = o
	return o
}

func (ex *Explorer) initAllowed(path string) bool {
	if ex.initAllow[path] {
		return true
	}
	return strings.HasPrefix(path, "github.com/welllog/golib") || strings.HasPrefix(path, "vh/") || path == "vh"
}

var defaultInitAllow = []string{"errors", "io", "unicode/utf8", "unicode/utf16", "unicode", "strconv", "strings", "bytes", "sort",
	"encoding/hex", "encoding/base64", "encoding/binary", "container/list", "math/bits", "math", "crypto/cipher", "crypto/subtle",
	"slices", "cmp", "iter", "container/heap", "internal/itoa", "internal/bytealg", "internal/byteorder", "internal/stringslite", "unsafe", "internal/unsafeheader",
	"internal/abi", "internal/goarch", "hash", "crypto", "encoding", "maps", "math/rand", "internal/race", "internal/cpu", "crypto/internal/alias"}

// newWorker creates a worker and runs the package initialisers concretely.
func (ex *Explorer) newWorker(id int) (*Worker, error) {
	w := &Worker{id: id, ex: ex, ctx: NewTermCtx(), zeroCache: map[types.Type][]Value{}, strConsts: map[string]Str{}, globals: map[*ssa.Global]*Obj{}, funcs: map[*ssa.Function]bool{}, qcache: map[qkey]qres{}}
	s, err := NewSolver(w.ctx, ex.cfg.QueryTimeoutMs)
	if err != nil {
		return nil, err
	}
	w.solver = s
	// run init of the harness package (transitively, allow-listed) in "init phase"
	w.initPhase = true
	r := w.newRun(nil)
	r.sched = nil
	var initErr error
	func() {
		defer func() {
			if x := recover(); x != nil {
				initErr = fmt.Errorf("package init failed: %v", describeSentinel(r, x))
			}
		}()
		s.Push()
		defer s.Pop()
		initFn := ex.harnessPkg.Func("init")
		r.callSSA(nil, initFn, nil, nil)
	}()
	w.initPhase = false
	return w, initErr
}

func describeSentinel(r *Run, x interface{}) string {
	switch x := x.(type) {
	case pathEnd:
		return "pathEnd: " + x.why
	case abortRun:
		return "abort: " + x.why
	case engineErr:
		return "engine error: " + x.msg
	case targetPanic:
		return "target panic: " + r.describePanic(x.v)
	case error:
		return "host error: " + x.Error()
	}
	return fmt.Sprint(x)
}

func (w *Worker) newRun(prefix []Dec) *Run {
	r := &Run{w: w, prefix: prefix, pcSet: map[*Term]bool{}, covers: map[string]int{}, stubs: map[string]bool{},
		ufParent: map[int]int{}, groupConj: map[int][]*Term{}, groupVars: map[int][]int{}, groupValid: map[int]bool{}, model: NewModel()}
	r.sched = newSched(r)
	return r
}

type runOutcome struct {
	kind string // ok | assume | abort | engine
	why  string
}

// execute runs one path.
func (w *Worker) execute(prefix []Dec) (r *Run, out runOutcome) {
	r = w.newRun(prefix)
	s := w.solver
	defer func() {
		x := recover()
		// undo writes to pre-run objects
		for i := len(r.undo) - 1; i >= 0; i-- {
			u := r.undo[i]
			u.o.cells[u.off] = u.old
		}
		for _, u := range r.mundo {
			u.m.entries = u.entries
			u.m.n = u.n
			for i, e := range u.entries {
				e.v = u.vals[i]
				e.deleted = u.del[i]
			}
		}
		for _, o := range r.raceObjs {
			o.race = nil
		}
		if r.sched != nil {
			r.sched.killAll()
		}
		for s.depth > 0 {
			s.Pop()
		}
		r.solverOpen, r.solverSynced = false, 0
		switch x := x.(type) {
		case nil:
			out = runOutcome{"ok", ""}
		case pathEnd:
			out = runOutcome{"assume", x.why}
		case abortRun:
			out = runOutcome{"abort", x.why}
		case engineErr:
			out = runOutcome{"engine", x.msg}
		case targetPanic:
			// unrecovered panic in the harness goroutine
			func() {
				defer func() {
					if y := recover(); y != nil {
						out = runOutcome{"abort", "while reporting panic: " + describeSentinel(r, y)}
					}
				}()
				r.violation("panic", "unrecovered panic: "+r.describePanic(x.v), "panic")
				out = runOutcome{"ok", "panic"}
			}()
			for s.depth > 0 {
				s.Pop()
			}
		default:
			panic(x)
		}
	}()
	r.callSSA(nil, w.ex.harnessFn, nil, nil)
	if os.Getenv("GOSYM_GROUPS") != "" && len(prefix) == 0 {
		for _, root := range r.allRoots() {
			fmt.Fprintf(os.Stderr, "group %d: vars=%d conj=%d\n", root, len(r.groupVars[root]), len(r.groupConj[root]))
			for _, id := range r.groupVars[root] {
				if v := w.ctx.varByID[id]; v != nil {
					fmt.Fprintf(os.Stderr, "   %s\n", v.name)
				}
			}
		}
		for _, t := range r.pc {
			if len(w.ctx.VarsOf(t)) > 1 {
				fmt.Fprintf(os.Stderr, "  multi-var conj: %s\n", t.Deep(5))
			}
		}
	}
	if w.ex.wantWitness() && len(r.viols) == 0 && (r.sched == nil || len(r.sched.gs) == 1) {
		r.makeWitness()
	}
	// main returned: all goroutines must be done (leftovers are killed)
	return
}

func (ex *Explorer) workerLoop(w *Worker, wg *sync.WaitGroup) {
	defer wg.Done()
	for {
		prefix, ok := ex.pop()
		if !ok {
			return
		}
		r, out := w.execute(prefix)
		ex.account(w, r, out)
		ex.finishOne()
	}
}

func (ex *Explorer) account(w *Worker, r *Run, out runOutcome) {
	ex.mu.Lock()
	defer ex.mu.Unlock()
	ex.paths++
	if ex.dumpF != nil {
		fmt.Fprintf(ex.dumpF, "%s %s\n", out.kind, decsString(r.trace, 100000))
	}
	ex.decisions += int64(len(r.trace))
	ex.instrs += r.nInstr
	ex.asserts += int64(r.assertsTotal)
	ex.assertsSym += int64(r.asserts)
	if len(r.trace) > ex.maxDepthSeen {
		ex.maxDepthSeen = len(r.trace)
	}
	for k, v := range r.covers {
		ex.covers[k] += v
	}
	for k := range r.stubs {
		ex.stubs[k] = true
	}
	switch out.kind {
	case "ok":
		ex.pathsOK++
	case "assume":
		ex.pathsAssumeEnd++
	case "abort":
		ex.aborts[out.why]++
	case "engine":
		ex.engineErrs = append(ex.engineErrs, out.why)
		ex.stop = true
		ex.cond.Broadcast()
	}
	for _, v := range r.viols {
		key := v.Kind + "|" + v.Msg + "|" + v.Sig
		if !ex.violSigs[key] {
			ex.violSigs[key] = true
			ex.viols = append(ex.viols, v)
		}
	}
	if len(ex.viols) >= ex.cfg.MaxViolations || (ex.cfg.StopAtFirst && len(ex.viols) > 0) {
		ex.stop = true
		ex.cond.Broadcast()
	}
	if ex.paths >= ex.cfg.MaxPaths {
		ex.aborts["path budget exceeded"]++
		ex.stop = true
		ex.cond.Broadcast()
	}
	if out.kind == "ok" && len(ex.samples) < 5 && (ex.paths%7 == 1 || len(ex.samples) == 0) {
		smp := map[string]interface{}{"decisions": decsString(r.trace, 60), "observed": r.obsStr}
		okm := r.fullModelSafe()
		for w.solver.depth > 0 {
			w.solver.Pop()
		}
		r.solverOpen, r.solverSynced = false, 0
		if okm {
			in := map[string]uint64{}
			for _, i := range r.inputs {
				v, _ := r.model.Eval(i.T)
				in[i.T.name] = v
			}
			smp["witness_inputs"] = in
		}
		ex.samples = append(ex.samples, smp)
	}
	if r.witness != nil && len(ex.witnesses) < ex.cfg.witnessCap() {
		ex.witnesses = append(ex.witnesses, r.witness)
	}
}

func (c Config) witnessCap() int { return c.Witnesses }

func (ex *Explorer) wantWitness() bool {
	if ex.cfg.Witnesses == 0 {
		return false
	}
	ex.mu.Lock()
	defer ex.mu.Unlock()
	ex.witnessTick++
	// sample: the first few paths and then every k-th
	return len(ex.witnesses) < ex.cfg.Witnesses && (ex.witnessTick <= 5 || ex.witnessTick%ex.cfg.WitnessEvery == 0)
}

func decsString(t []Dec, max int) string {
	var sb strings.Builder
	for i, d := range t {
		if i >= max {
			fmt.Fprintf(&sb, "… (%d more)", len(t)-max)
			break
		}
		sb.WriteString(d.String())
		sb.WriteByte(' ')
	}
	return sb.String()
}

// Explore runs the whole search.
func (ex *Explorer) Explore() error {
	ex.cond = sync.NewCond(&ex.mu)
	ex.stack = [][]Dec{nil}
	n := ex.cfg.Workers
	workers := make([]*Worker, n)
	var firstErr error
	var wgInit sync.WaitGroup
	tInit := time.Now()
	var emu sync.Mutex
	for i := 0; i < n; i++ {
		wgInit.Add(1)
		go func(i int) {
			defer wgInit.Done()
			w, err := ex.newWorker(i)
			emu.Lock()
			if err != nil && firstErr == nil {
				firstErr = err
			}
			emu.Unlock()
			workers[i] = w
		}(i)
	}
	wgInit.Wait()
	ex.initS = time.Since(tInit).Seconds()
	if firstErr != nil {
		return firstErr
	}
	var wg sync.WaitGroup
	for _, w := range workers {
		wg.Add(1)
		go ex.workerLoop(w, &wg)
	}
	wg.Wait()
	for _, w := range workers {
		ex.totalQueries += w.nQueries
		ex.qSat += int64(w.solver.nSat)
		ex.qUnsat += int64(w.solver.nUnsat)
		ex.qUnknown += int64(w.solver.nUnk)
		ex.solverDur += w.solver.dur
		ex.valDur += w.solver.valDur
		ex.fallbacks += w.fallbacks
		ex.cacheHits += w.cacheHits
		ex.coreHits += w.coreHits
		ex.poolHits += w.poolHits
		ex.xsamples = append(ex.xsamples, w.xsamples...)
		if os.Getenv("GOSYM_GROUPS") != "" {
			fmt.Fprintf(os.Stderr, "worker %d: misses by #groups %v hits %d\n", w.id, w.missByRoots[:6], w.cacheHits)
		}
		for f := range w.funcs {
			if f.Pkg != nil || f.Origin() != nil || f.Parent() != nil {
				ex.funcs[f.String()] = true
			}
		}
		w.solver.Close()
	}
	return nil
}

func sortedKeys(m map[string]bool) []string {
	out := make([]string, 0, len(m))
	for k := range m {
		out = append(out, k)
	}
	sort.Strings(out)
	return out
}

type cacheShard struct {
	mu sync.Mutex
	m  map[qkey]qres
}

func (ex *Explorer) cacheGet(k qkey) (qres, bool) {
	sh := &ex.cacheSh[k.a&63]
	sh.mu.Lock()
	c, ok := sh.m[k]
	sh.mu.Unlock()
	return c, ok
}

func (ex *Explorer) cachePut(k qkey, v qres) {
	sh := &ex.cacheSh[k.a&63]
	sh.mu.Lock()
	if sh.m == nil || len(sh.m) >= ex.cfg.MaxCache/64+1 {
		sh.m = map[qkey]qres{}
	}
	sh.m[k] = v
	sh.mu.Unlock()
}

type coreShard struct {
	mu sync.Mutex
	m  map[qkey][][][2]uint64
}

func (ex *Explorer) coresGet(k qkey) [][][2]uint64 {
	sh := &ex.coreSh[k.a&63]
	sh.mu.Lock()
	c := sh.m[k]
	sh.mu.Unlock()
	return c
}

func (ex *Explorer) coresPut(k qkey, core [][2]uint64) {
	sh := &ex.coreSh[k.a&63]
	sh.mu.Lock()
	if sh.m == nil || len(sh.m) > 200000 {
		sh.m = map[qkey][][][2]uint64{}
	}
	l := sh.m[k]
	if len(l) < 24 {
		sh.m[k] = append(l, core)
	}
	sh.mu.Unlock()
}

type poolShard struct {
	mu sync.Mutex
	m  map[qkey][][]uint64
}

func varsKey(vars []int, c *TermCtx) qkey {
	k := qkey{uint64(len(vars)) + 17, 99}
	for _, v := range vars {
		if t := c.varByID[v]; t != nil {
			k.a = mix(k.a, t.h1)
			k.b = mix(k.b, t.h2)
		} else {
			k.a = mix(k.a, uint64(int64(v)))
		}
	}
	return k
}

func (ex *Explorer) poolGet(vars []int, c *TermCtx) [][]uint64 {
	k := varsKey(vars, c)
	sh := &ex.poolSh[k.a&63]
	sh.mu.Lock()
	l := append([][]uint64(nil), sh.m[k]...)
	sh.mu.Unlock()
	return l
}

func (ex *Explorer) poolPut(vars []int, c *TermCtx, vals []uint64) {
	k := varsKey(vars, c)
	sh := &ex.poolSh[k.a&63]
	sh.mu.Lock()
	if sh.m == nil || len(sh.m) > 100000 {
		sh.m = map[qkey][][]uint64{}
	}
	l := sh.m[k]
	if len(l) >= 12 {
		l = l[1:]
	}
	sh.m[k] = append(l, vals)
	sh.mu.Unlock()
}
