"""Per-property job lists for bin/check (quick / thorough), bounds, assumptions."""


def J(harness, label="", covers=None, cfg=None, **params):
    d = {"harness": harness, "params": params, "label": label or ",".join("%s=%s" % kv for kv in sorted(params.items()))}
    if covers:
        d["covers"] = covers
    if cfg:
        d["cfg"] = cfg
    return d


PROPS = {}
NA = {}

# ------------------------------------------------------------------------------------------- C07
c07 = "vh/c07."
PROPS["C07"] = {
    "patterns": ["./c07"],
    "level": "model_checking",
    "quick": (
        [J(c07 + "OctRoundTrip", n=n) for n in (0, 1, 2, 3)]
        + [J(c07 + "HexRoundTrip", n=n) for n in (0, 1, 2, 3)]
        + [J(c07 + "UniRoundTrip", k=k) for k in (0, 1, 2)]
        + [J(c07 + "U16RoundTrip", k=k) for k in (0, 1, 2)]
        + [J(c07 + "UniInvalid", n=n) for n in (1, 2, 3)]
        + [J(c07 + "OctArb", n=n) for n in range(0, 8)]
        + [J(c07 + "HexArb", n=n) for n in range(0, 8)]
        + [J(c07 + "UniArb", n=n) for n in (0, 5, 9, 10, 11, 12)]
        + [J(c07 + "U16Arb", n=n) for n in (0, 5, 6, 7, 11, 12)]
        + [J(c07 + "OctEmbed", np=p, nq=q) for p in (0, 1, 2) for q in (0, 1, 2)]
        + [J(c07 + "HexEmbed", np=p, nq=q) for p in (0, 1, 2) for q in (0, 1, 2)]
        + [J(c07 + "UniEmbed", np=p, nq=q) for p in (0, 1) for q in (0, 1)]
        + [J(c07 + "U16Embed", np=p, nq=q, covers=["bmp unit", "surrogate pair"]) for p in (0, 1) for q in (0, 1)]
    ),
    "bounds": {"quick": "round trips: every byte string of length <= 3 (octal, hex); every string of <= 2 arbitrary Unicode scalar values (unicode, utf16); every byte string of length <= 3 incl. invalid UTF-8; arbitrary parser input: every byte string of length <= 7 (octal, hex), <= 12 (unicode, utf16); embedded escapes: every well-formed escape (all values, both letter cases) between every backslash-free prefix/suffix of <= 2 (oct/hex) / <= 1 (unicode/utf16) bytes"},
    "outside": ["longer inputs", "exact output for escapes adjacent to other escapes (only no-panic/length/no-backslash-identity is asserted for arbitrary input, as in the property)"],
    "assumptions": ["dst passed to the Parse functions has len(src) bytes, as the ToString wrappers allocate it"],
    "level_text": "Bounded symbolic model checking of the real strz codecs: every feasible path of Format/Parse (and ToString forms) for all inputs within the length bounds is executed symbolically; round-trip, shape, length, identity and embedding assertions are decided by the solver for all byte values on each path.",
    "level_note": "Trusted: go/ssa translation, gosym interpreter (cross-validated on every run by natively replaying sampled path witnesses), z3. Outside the bound: inputs longer than stated.",
}
