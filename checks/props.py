"""Per-property job lists for bin/check (quick / thorough), bounds, assumptions."""


def J(harness, label="", covers=None, cfg=None, **params):
    d = {"harness": harness, "params": params, "label": label or ",".join("%s=%s" % kv for kv in sorted(params.items()))}
    if covers:
        d["covers"] = covers
    if cfg:
        d["cfg"] = cfg
    return d


PROPS = {}

# ------------------------------------------------------------------------------------------- C07
c07 = "vh/c07."
PROPS["C07"] = {
    "patterns": ["./c07"],
    "level": "model_checking",
    "quick": (
        [J(c07 + "OctRoundTrip", n=n) for n in (0, 1, 2, 3)]
        + [J(c07 + "HexRoundTrip", n=n) for n in (0, 1, 2, 3)]
        + [J(c07 + "UniRoundTrip", k=k) for k in (0, 1, 2)]
        + [J(c07 + "U16RoundTrip", k=k) for k in (0, 1, 2)]
        + [J(c07 + "UniInvalid", n=n) for n in (1, 2, 3)]
        + [J(c07 + "OctArb", n=n) for n in range(0, 8)]
        + [J(c07 + "HexArb", n=n) for n in range(0, 8)]
        + [J(c07 + "UniArb", n=n) for n in (0, 5, 9, 10, 11, 12)]
        + [J(c07 + "U16Arb", n=n) for n in (0, 5, 6, 7, 11, 12)]
        + [J(c07 + "OctEmbed", np=p, nq=q) for p in (0, 1, 2) for q in (0, 1, 2)]
        + [J(c07 + "HexEmbed", np=p, nq=q) for p in (0, 1, 2) for q in (0, 1, 2)]
        + [J(c07 + "UniEmbed", np=p, nq=q) for p in (0, 1) for q in (0, 1)]
        + [J(c07 + "U16Embed", np=p, nq=q, covers=["bmp unit", "surrogate pair"]) for p in (0, 1) for q in (0, 1)]
    ),
    "bounds": {},
    "outside": [],
    "assumptions": [],
}
