"""Per-property job lists for bin/check (quick / thorough), bounds, assumptions."""


def J(harness, label="", covers=None, cfg=None, noassert=False, map_order=None, **params):
    d = {"harness": harness, "params": params, "label": label or ",".join("%s=%s" % kv for kv in sorted(params.items()))}
    if map_order:
        d["map_order"] = map_order
    if noassert:
        d["no_assert_ok"] = True  # the property is "no panic": every library panic is a violation by itself
    if covers:
        d["covers"] = covers
    if cfg:
        d["cfg"] = cfg
        if "Preempt" in cfg and not label:
            d["label"] += ",preempt=%d" % cfg["Preempt"]
    return d


PROPS = {}
NA = {}

# ------------------------------------------------------------------------------------------- C07
c07 = "vh/c07."
PROPS["C07"] = {
    "patterns": ["./c07"],
    "level": "model_checking",
    "quick": (
        [J(c07 + "OctRoundTrip", n=n) for n in (0, 1, 2, 3)]
        + [J(c07 + "HexRoundTrip", n=n) for n in (0, 1, 2, 3)]
        + [J(c07 + "UniRoundTrip", k=k) for k in (0, 1, 2)]
        + [J(c07 + "U16RoundTrip", k=k) for k in (0, 1, 2)]
        + [J(c07 + "UniInvalid", n=n) for n in (1, 2, 3)]
        + [J(c07 + "OctArb", n=n) for n in range(0, 8)]
        + [J(c07 + "HexArb", n=n) for n in range(0, 8)]
        + [J(c07 + "UniArb", n=n) for n in (0, 5, 9, 10, 11, 12)]
        + [J(c07 + "U16Arb", n=n) for n in (0, 5, 6, 7, 11, 12)]
        + [J(c07 + "OctEmbed", np=p, nq=q) for p in (0, 1, 2) for q in (0, 1, 2)]
        + [J(c07 + "HexEmbed", np=p, nq=q) for p in (0, 1, 2) for q in (0, 1, 2)]
        + [J(c07 + "UniEmbed", np=p, nq=q) for p in (0, 1) for q in (0, 1)]
        + [J(c07 + "U16Embed", np=p, nq=q, covers=["bmp unit", "surrogate pair"]) for p in (0, 1) for q in (0, 1)]
    ),
    "thorough": (
        [J(c07 + "OctRoundTrip", n=4), J(c07 + "HexRoundTrip", n=4)]
        + [J(c07 + "OctArb", n=n) for n in (8, 9)]
        + [J(c07 + "HexArb", n=n) for n in (8, 9)]
        + [J(c07 + "UniArb", n=n) for n in (1, 4, 6, 8, 13)]
        + [J(c07 + "U16Arb", n=n) for n in (1, 4, 8, 9, 10, 13)]
        + [J(c07 + "UniEmbed", np=p, nq=q) for (p, q) in ((2, 0), (0, 2), (2, 2))]
        + [J(c07 + "U16Embed", np=p, nq=q, covers=["bmp unit", "surrogate pair"]) for (p, q) in ((2, 0), (0, 2), (2, 2))]
        + [J(c07 + "UniInvalid", n=4)]
    ),
    "bounds": {"quick": "round trips: every byte string of length <= 3 (octal, hex); every string of <= 2 arbitrary Unicode scalar values (unicode, utf16); every byte string of length <= 3 incl. invalid UTF-8; arbitrary parser input: every byte string of length <= 7 (octal, hex), <= 12 (unicode, utf16); embedded escapes: every well-formed escape (all values, both letter cases) between every backslash-free prefix/suffix of <= 2 (oct/hex) / <= 1 (unicode/utf16) bytes",
               "thorough": "round trips of 4 bytes (octal, hex); arbitrary parser input up to 9 (octal, hex) and 13 bytes (unicode, utf16), further lengths in between; prefixes/suffixes of 2 bytes around unicode/utf16 escapes; Format/Parse of 4 arbitrary bytes incl. invalid UTF-8"},
    "outside": ["longer inputs", "exact output for escapes adjacent to other escapes (only no-panic/length/no-backslash-identity is asserted for arbitrary input, as in the property)"],
    "assumptions": ["dst passed to the Parse functions has len(src) bytes, as the ToString wrappers allocate it"],
    "level_text": "Bounded symbolic model checking of the real strz codecs: every feasible path of Format/Parse (and ToString forms) for all inputs within the length bounds is executed symbolically; round-trip, shape, length, identity and embedding assertions are decided by the solver for all byte values on each path.",
    "level_note": "Trusted: go/ssa translation, gosym interpreter (cross-validated on every run by natively replaying sampled path witnesses), z3. Outside the bound: inputs longer than stated.",
}

# ------------------------------------------------------------------------------------------- C15
c15 = "vh/c15."
FB = {"QueryTimeoutMs": 4000}
PROPS["C15"] = {
    "patterns": ["./c15"],
    "level": "model_checking",
    "quick": (
        [J(c15 + "ParseUintArb", n=n) for n in (0, 1, 2, 3)]
        + [J(c15 + "ParseUintDigits", cfg=FB, n=20, base=10), J(c15 + "ParseUintDigits", cfg=FB, n=17, base=16, free=2), J(c15 + "ParseUintDigits", cfg=FB, n=16, base=16, free=2)]
        + [J(c15 + "ParseUintBase0", n=n) for n in (1, 2, 3, 4)]
        + [J(c15 + "HexCodec", n=n) for n in (0, 1, 2, 3, 4, 5)]
        + [J(c15 + "Base64Codec", n=n) for n in (0, 1, 2, 3, 4)]
        + [J(c15 + "Base64DecodeArb", n=n) for n in (0, 1, 2, 3, 4, 5)]
        + [J(c15 + "IPv4", cfg=FB)]
        + [J(c15 + "Digests", n=n, cuts=1) for n in (0, 1, 3)]
        + [J(c15 + "Hmacs", nk=2, n=2), J(c15 + "Hmacs", nk=0, n=0)]
    ),
    "thorough": (
        [J(c15 + "ParseUintArb", n=n) for n in (0, 1, 2, 3, 4)]
        + [J(c15 + "ParseUintDigits", cfg=FB, n=n, base=b, free=f) for (n, b, f) in ((19, 10, 0), (20, 10, 0), (21, 10, 0), (16, 16, 4), (17, 16, 4), (64, 2, 0), (65, 2, 0), (22, 8, 0), (23, 8, 0), (13, 36, 4), (14, 36, 4), (13, 32, 4))]
        + [J(c15 + "ParseUintBase0", n=n) for n in (1, 2, 3, 4, 5)]
        + [J(c15 + "HexCodec", n=n) for n in range(0, 8)]
        + [J(c15 + "Base64Codec", n=n) for n in range(0, 7)]
        + [J(c15 + "Base64DecodeArb", n=n) for n in range(0, 9)]
        + [J(c15 + "IPv4", cfg=FB)]
        + [J(c15 + "Digests", n=n, cuts=c) for n in (0, 1, 2, 3, 5) for c in (1, 2)]
        + [J(c15 + "Hmacs", nk=k, n=n) for k in (0, 1, 3) for n in (0, 2, 4)]
    ),
    "bounds": {"quick": "ParseUint: every string of <= 3 arbitrary bytes x base -1..37 x bitSize -1..65; all 20-digit base-10 numerals and all 16/17-digit base-16 numerals whose letters are confined to the two leading digits (every digit value, both letter cases, every bitSize 0..64); base-0 strings <= 4 chars over the alphabet 0179_xXoObBaFfg+-; hex: every input <= 5 bytes; base64 (Std/URL/RawStd): every input <= 4 bytes, every text <= 5 bytes; IPv4: all 2^32 values; digests: inputs <= 3 bytes, <= 1 short read",
               "thorough": "ParseUint: <= 4 arbitrary bytes; cut-off lengths for bases 2, 8, 10, 16, 32, 36; base-0 <= 5 chars; hex <= 7 bytes; base64 <= 6 bytes / <= 8 chars; digests <= 5 bytes, <= 2 short reads; hmac keys <= 3, data <= 4 bytes"},
    "outside": ["longer strings", "the digest / HMAC bit patterns themselves (uninterpreted functions: only 'equal input bytes give equal digests' is used)", "net.IP formatting (modelled as dotted decimal of the four bytes)"],
    "assumptions": ["MD5/SHA*/HMAC are uninterpreted functions of their input bytes (per input length)", "net.IPv4(...).String() is the dotted decimal of the four bytes (vh/vstub.IPString)", "fmt.Errorf/Sprintf text is compared structurally (format string + argument bytes)"],
    "level_text": "Differential bounded symbolic model checking: the library routine and the standard-library routine are both executed symbolically from their SSA on the same symbolic input, and the solver decides equality of value / error-ness / error text on every pair of paths, for all inputs within the bounds (including the 64-bit overflow boundary of ParseUint and all 2^32 IPv4 values).",
    "level_note": "Trusted: go/ssa, gosym (witness-validated each run), z3; digests are uninterpreted functions so only the plumbing (hex case, string/[]byte equivalence, stream = one-shot, input unmodified) is decided.",
}

# ------------------------------------------------------------------------------------------- C17
c17 = "vh/c17."
PROPS["C17"] = {
    "patterns": ["./c17"],
    "level": "model_checking",
    "quick": (
        [J(c17 + "SubValid", k=k) for k in (0, 1, 2)]
        + [J(c17 + "MaskValid", k=k) for k in (0, 1, 2)]
        + [J(c17 + "DisplayValid", k=k) for k in (0, 1, 2, 3)]
        + [J(c17 + "RevLenRemove", k=k) for k in (0, 1, 2)]
        + [J(c17 + "Arbitrary", noassert=True, n=n) for n in (0, 1, 2, 3, 4)]
        + [J(c17 + "Arbitrary", noassert=True, n=5, case=3), J(c17 + "Arbitrary", noassert=True, n=6, case=3)]
        + [J(c17 + "Snake", n=n) for n in (1, 2, 3, 4, 5, 6)]
    ),
    "thorough": (
        [J(c17 + "SubValid", k=k) for k in (0, 1, 2, 3)]
        + [J(c17 + "MaskValid", k=k) for k in (0, 1, 2, 3)]
        + [J(c17 + "DisplayValid", k=k) for k in (0, 1, 2, 3, 4)]
        + [J(c17 + "RevLenRemove", k=k) for k in (0, 1, 2, 3)]
        + [J(c17 + "Arbitrary", noassert=True, n=n) for n in (0, 1, 2, 3, 4, 5)]
        + [J(c17 + "Arbitrary", noassert=True, n=6, case=c) for c in (0, 3, 4)]
        + [J(c17 + "Arbitrary", noassert=True, n=7, case=3)]
        + [J(c17 + "Snake", n=n) for n in range(1, 9)]
    ),
    "bounds": {"quick": "valid strings: every string of <= 2 arbitrary Unicode scalar values (<= 3 for SubByDisplay), every non-negative 64-bit start/length/end/limit (length also -1), one- and two-rune masks, arbitrary removal predicate (uninterpreted); arbitrary byte strings <= 4 bytes for every function (<= 6 for SubByDisplay) with arbitrary non-negative arguments; snake identifiers <= 6 bytes",
               "thorough": "valid strings <= 3 scalar values (<= 4 for SubByDisplay); arbitrary bytes <= 5 (<= 7 SubByDisplay, <= 6 Sub/Rev); snake identifiers <= 8 bytes"},
    "outside": ["longer strings", "negative arguments (not in the property)", "snake_case identifiers with digits or upper-case letters"],
    "assumptions": ["lower-case snake_case identifier = [a-z] segments separated by single underscores, no leading/trailing underscore"],
    "level_text": "Bounded symbolic model checking of the real strz helpers against rune-slice definitions: all scalar values of every UTF-8 width per rune and all 64-bit non-negative arguments are covered symbolically on each path; arbitrary (invalid) byte strings are checked for absence of panics.",
    "level_note": "Trusted: go/ssa, gosym (witness-validated each run), z3. unicode/utf8 is executed from its own SSA, not modelled.",
}

# ------------------------------------------------------------------------------------------- C10
c10 = "vh/c10."
PROPS["C10"] = {
    "patterns": ["./c10"],
    "overlay": {"/repo/ringz/zz_verif_hooks.go": "inpkg/ringz_zz.go"},
    "level": "model_checking",
    "quick": [
        J(c10 + "RingSeq", maxcap=4, ops=3, maxrecap=6, covers=["recap ok", "expanded"]),
        J(c10 + "RingInit"),
        J(c10 + "SyncSeq", maxreq=5, ops=4),
        J(c10 + "SyncInit"),
        J(c10 + "SyncWrap", maxreq=4, ops=3, covers=["counter near wrap"]),
        J(c10 + "Roundup"),
    ],
    "thorough": [
        J(c10 + "RingSeq", maxcap=4, ops=4, maxrecap=6, covers=["recap ok", "expanded"]),
        J(c10 + "RingSeq", maxcap=5, ops=4, maxrecap=8, covers=["recap ok", "expanded"]),
        J(c10 + "RingInit"),
        J(c10 + "SyncSeq", maxreq=9, ops=5),
        J(c10 + "SyncInit"),
        J(c10 + "SyncWrap", maxreq=8, ops=4, covers=["counter near wrap"]),
        J(c10 + "Roundup"),
    ],
    "bounds": {"quick": "Ring: capacities 1..4, every rotation and fill, 3 arbitrary operations (Push/Pop/Recap(n<=6, all n<=0)/PushWithExpand/observers) with symbolic values, then drain; SyncRing: requested capacities 1..5 (public API, counters from 0, 4 operations) and 1..4 from an arbitrary representation-invariant state with the absolute head counter symbolic over all 2^32 values (3 operations, invariant re-checked after each: inductive step); roundupPowOfTwo for all 2^32 arguments",
               "thorough": "Ring capacities 1..5, 4 operations, Recap n<=8; SyncRing requests 1..9 / 5 operations; wrap variant requests 1..8 / 4 operations"},
    "outside": ["longer operation sequences from one state (covered inductively for SyncRing by the invariant step, not for Ring)", "Ring capacities above the bound", "PushWait/PopWait with positive timeout (ticker)"],
    "assumptions": ["in-package constructor VerifSyncRingAt builds exactly the states described by the representation invariant (head, tail, per-slot sequence numbers); the same harness re-checks that invariant after every step"],
    "level_text": "Bounded symbolic model checking of Ring and SyncRing against a FIFO slice model: values, Recap arguments and the absolute 32-bit position counter are symbolic, capacities/rotations/operation sequences are enumerated; for SyncRing one arbitrary step from an arbitrary invariant state (all 2^32 counter values, wrap-around included) is shown to give the model's result and re-establish the invariant, which covers histories of any length.",
    "level_note": "Trusted: go/ssa, gosym, z3, and the overlay constructor (in /verif/inpkg, injected with go/packages overlays; if the private fields are renamed the overlay fails to type-check and the check reports inconclusive, never a violation).",
}

# ------------------------------------------------------------------------------------------- C16
c16 = "vh/c16."
PROPS["C16"] = {
    "patterns": ["./c16"],
    "overlay": {"/repo/setz/zz_verif_hooks.go": "inpkg/setz_zz.go"},
    "level": "model_checking",
    "quick": [
        J(c16 + "BitsSym", words=3, ops=2),
        J(c16 + "BitsSym", words=2, ops=3),
        J(c16 + "BitsEnum", ops=2),
        J(c16 + "BitsEnum", ops=3, cands=5),
        J(c16 + "DszEnum", ops=3, cands=8),
        J(c16 + "DszSym", words=3, ops=3),
        J(c16 + "BitsStep", na=2, nb=3),
        J(c16 + "BitsStep2", na=2, nb=2),
        J(c16 + "BitsSym", words=2, ops=2, lenmode=1),
    ],
    "thorough": [
        J(c16 + "BitsEnum", ops=3),
        J(c16 + "BitsSym", words=4, ops=4),
        J(c16 + "BitsEnum", ops=4),
        J(c16 + "DszEnum", ops=4),
        J(c16 + "DszSym", words=4, ops=5),
        J(c16 + "BitsStep", na=3, nb=4),
        J(c16 + "BitsStep2", na=3, nb=3),
        J(c16 + "BitsSym", words=3, ops=3, lenmode=1),
    ],
    "bounds": {"quick": "setz.Bits/Bitmap: 3 operations on two sets (Add/Remove/Diff/Intersect/Merge/Clone/Grow) with symbolic numbers < 192, membership of a fresh symbolic number and Len after each; enumeration (Iter/Range/All incl. early stop) after each of 2 operations over the word-boundary numbers {0,1,62,63,64,65,126,127,128,129,191,200} and of 3 operations over {63,64,0,127,128}; one operation from an arbitrary state: 0..2 fully symbolic 64-bit words, other operand 0..3 fully symbolic words, symbolic argument < 256 (inductive step); a bulk operation on arbitrary words immediately followed by Add/Remove with Len observed only afterwards; 2 operations with Len observed either after every call or only at the end; dsz.Bits: 3 operations symbolic and enumerated",
               "thorough": "4 operations, 4 words; arbitrary-state step with 0..3 and 0..4 words"},
    "outside": ["numbers >= 256", "enumeration (Iter/Range/All) over an arbitrary symbolic word (forks on every bit): enumeration is checked on the concrete boundary candidates only"],
    "assumptions": ["in-package constructor VerifBits builds words + length=popcount (the representation invariant of Bits)", "math/bits.OnesCount64 is encoded by its SWAR formula on both sides"],
    "level_text": "Bounded symbolic model checking of Bits/Bitmap/dsz.Bits against a branch-free set model; one arbitrary operation from an arbitrary representation-invariant state with fully symbolic 64-bit words is decided by pure bit-vector reasoning (membership of a fresh symbolic number, Len via popcount), covering operation sequences of any length; enumeration order is checked exhaustively over word-boundary values.",
    "level_note": "Trusted: go/ssa, gosym (witness-validated), z3, overlay constructor in /verif/inpkg (falls back to inconclusive if private fields change).",
}

# ------------------------------------------------------------------------------------------- C14
c14 = "vh/c14."
PROPS["C14"] = {
    "patterns": ["./c14"],
    "level": "model_checking",
    "quick": (
        [J(c14 + "SetOps", n1=a, n2=b) for a in (0, 1, 2, 3) for b in (0, 1, 2, 3)]
        + [J(c14 + "SetOps", n1=a, n2=0, nil2=1) for a in (0, 2)]
        + [J(c14 + "UniqueOps", n=n) for n in (0, 1, 2, 3, 4)]
        + [J(c14 + "IndexOps", n=n) for n in (0, 1, 2, 3, 4)]
        + [J(c14 + "Flex", maxn=3, maxcap=36, ops=2)]
    ),
    "thorough": (
        [J(c14 + "SetOps", n1=a, n2=b) for a in (0, 1, 2, 3, 4, 5) for b in (0, 1, 2, 3, 4)]
        + [J(c14 + "SetOps", n1=a, n2=0, nil2=1) for a in (0, 2, 4)]
        + [J(c14 + "UniqueOps", n=n) for n in (0, 1, 2, 3, 4, 5, 6)]
        + [J(c14 + "IndexOps", n=n) for n in (0, 1, 2, 3, 4, 5, 6)]
        + [J(c14 + "Flex", maxn=4, maxcap=40, ops=2), J(c14 + "Flex", maxn=2, maxcap=24, ops=3, cfg={"MaxPaths": 40000000})]
    ),
    "bounds": {"quick": "Diff/Intersect(+InPlace): slices of length 0..3 x 0..3 (nil included) with symbolic int elements (every duplicate pattern arises from key-equality forks), dst = nil / fresh / s1[:0] / s2[:0]; Unique/UniqueByKey/Filter(+InPlace): length 0..4, key function and predicate uninterpreted; Equal/Index/Contains/SubSlice/Copy/Remove/Chunk/ChunkProcess/Values: length 0..4 with symbolic 64-bit start/end/length/index/chunk-size arguments (all negative and oversized values); FlexSlice: initial length 0..3 with symbolic capacity len..36 (growth and shrink thresholds), 2 arbitrary operations with symbolic indices",
               "thorough": "lengths up to 5/6, FlexSlice 0..4 elements / capacity <= 40 / 2 operations and 0..2 elements / capacity <= 24 / 3 operations"},
    "outside": ["longer slices", "element types other than int (the functions are generic and do not inspect T beyond ==)"],
    "assumptions": ["key function and predicate are arbitrary pure functions (uninterpreted)"],
    "level_text": "Bounded symbolic model checking of slicez against definitional oracles written in the harness: element values and all integer arguments are symbolic 64-bit values, so every duplicate pattern, every negative/oversized argument and every capacity around FlexSlice's growth/shrink thresholds is covered on some path and decided by the solver.",
    "level_note": "Trusted: go/ssa, gosym (witness-validated; append growth follows runtime.growslice incl. size classes), z3.",
}

# ------------------------------------------------------------------------------------------- C20
c20 = "vh/c20."
CG = {"QueryTimeoutMs": 4000, "FallbackTimeoutS": 90}
PROPS["C20"] = {
    "patterns": ["./c20"],
    "level": "model_checking",
    "quick": (
        [J(c20 + "Base32RoundTrip")]
        + [J(c20 + "ParseBase32Invalid", n=n) for n in (1, 2, 3)]
        + [J(c20 + "ParseBase32Valid", n=n) for n in (0, 1, 3, 12)]
        + [J(c20 + "Numerals", max=1000)]
        + [J(c20 + "IdGen")]
        + [J(c20 + "StrGen", k=1, maxn=3, samewidth=1), J(c20 + "StrGen", k=2, maxn=3, samewidth=1), J(c20 + "StrGen", k=5, maxn=2, wbits=6, samewidth=1),
           J(c20 + "StrGen", k=2, maxn=1)]
        + [J(c20 + "CountGen", cfg=CG, rules=1, maxparam=15, maxdiff=64), J(c20 + "CountGen", cfg=CG, rules=2, maxparam=7, maxdiff=20)]
    ),
    "thorough": (
        [J(c20 + "Base32RoundTrip")]
        + [J(c20 + "ParseBase32Invalid", n=n) for n in (1, 2, 3, 4, 5)]
        + [J(c20 + "ParseBase32Valid", n=n) for n in (0, 1, 3, 12, 13)]
        + [J(c20 + "Numerals", max=100000)]
        + [J(c20 + "IdGen")]
        + [J(c20 + "StrGen", k=k, maxn=3, wbits=9, samewidth=1) for k in (1, 2, 3, 4, 5, 8)]
        + [J(c20 + "StrGen", k=2, maxn=2)]
        + [J(c20 + "CountGen", cfg=CG, rules=1, maxparam=15, maxdiff=64), J(c20 + "CountGen", cfg=CG, rules=2, maxparam=15, maxdiff=64)]
    ),
    "bounds": {"quick": "Base32: every ID in [0, 2^63) (13 length paths); ParseBase32: inputs <= 3 bytes with one position holding any of the byte values outside the alphabet; IdGenerator: every int randBit, every random draw (crypto/rand and fallback branch), every elapsed time < 2^41 ms, two consecutive IDs; StrGenerator: character sets of 1, 2, 5 arbitrary runes of one UTF-8 width (all four widths) and n <= 3 (2 for 5 runes), plus mixed-width sets of 2 runes with n <= 1; random source = one arbitrary word < 2^6 then zero words; CountGenerator: 1 rule with parameters <= 15 / elapsed <= 64, 2 rules with parameters <= 7 / elapsed <= 20, arbitrary id hash",
               "thorough": "StrGenerator sets up to 8 runes, random word < 2^9; CountGenerator 2 rules with parameters <= 15, elapsed <= 64"},
    "outside": ["CountGenerator rule parameters above the bound (non-linear 64-bit arithmetic does not finish in the solver)", "random words >= 2^wbits in StrGenerator (more rejection patterns)", "randz.Id()/String() package-level wrappers (they only select the default generator)", "Base2/Base36/String for values >= the bound (they call strconv.FormatInt directly)"],
    "assumptions": ["time.Since is an arbitrary non-decreasing count of elapsed milliseconds", "crypto/rand.Int returns an arbitrary value in [0, max) or an error", "math/rand draws are arbitrary in their documented range"],
    "level_text": "Bounded symbolic model checking of randz: IDs, random draws, clock readings, random source words and rule parameters are symbolic, so every ID value, every byte offered to ParseBase32, every randBit setting and every elapsed time is covered by solver reasoning on each path.",
    "level_note": "Trusted: go/ssa, gosym, z3 (with one-shot fallback for the non-linear CountGenerator queries); clock and randomness stubs as listed in assumptions.",
}

# ------------------------------------------------------------------------------------------- C13
c13 = "vh/c13."
PROPS["C13"] = {
    "patterns": ["./c13"],
    "level": "model_checking",
    "quick": [J(c13 + "DListOps", init=2, ops=3, covers=["list copied onto itself"]), J(c13 + "SListOps", init=3, ops=3)],
    "thorough": [J(c13 + "SListOps", init=4, ops=3, cfg={"MaxPaths": 60000000}), J(c13 + "DListOps", init=3, ops=3, covers=["list copied onto itself"], cfg={"MaxPaths": 60000000}),
                 J(c13 + "DListOps", init=2, ops=4, covers=["list copied onto itself"], cfg={"MaxPaths": 60000000}), J(c13 + "SListOps", init=3, ops=4, cfg={"MaxPaths": 60000000})],
    "bounds": {"quick": "DList (zero value and NewDoubly): 0..2 initial elements, then 3 arbitrary operations out of PushFront/PushBack/InsertBefore/InsertAfter/Remove/MoveToFront/MoveToBack/MoveBefore/MoveAfter/PushBackDList/PushFrontDList (self and foreign)/node-based insertions, with every choice of live, removed and foreign handles, compared with container/list (executed from its own SSA) after every operation in both directions; SList: 0..3 initial elements, 3 operations with symbolic 64-bit indices (all out-of-range values)",
               "thorough": "the quick jobs plus one more initial element (SList 4, DList 3) with 3 operations; 4 operations did not finish within 20 minutes and are not registered"},
    "outside": ["longer operation sequences", "inserting a *Node that is still linked in a list (not in the property)"],
    "assumptions": [],
    "level_text": "Bounded model checking by symbolic execution: operation sequences and handle choices are enumerated by forking, values and indices are symbolic; container/list is the executable oracle for DList, a slice model for SList. The solver's contribution here is the index arithmetic and feasibility; most of the state space is pointer shape, explored exhaustively within the bound.",
    "level_note": "Trusted: go/ssa, gosym (witness-validated), z3. Little scalar data: this check is closer to exhaustive bounded exploration of the real code than to solver reasoning, and says so.",
}

# ------------------------------------------------------------------------------------------- C04
c04 = "vh/c04."
PROPS["C04"] = {
    "patterns": ["./c04"],
    "level": "model_checking",
    "quick": [
        J(c04 + "SliceOps", maxn=4, ops=2),
        J(c04 + "SliceOps", maxn=4, ops=0, arbitrary=1),
        J(c04 + "HeapOps", init=3, ops=3, covers=["re-init"]),
        J(c04 + "HeapOps", fixedinit=6, ops=1, onlyremovefix=1, cfg={"Witnesses": 4}),
        J(c04 + "GenericOps", maxn=4, ops=2),
    ] + [J(c04 + h, n=n) for h in ("SliceStep", "HeapStep", "GenericStep") for n in (12, 13, 15)] + [
        J(c04 + "SliceStep", n=31), J(c04 + "HeapStep", n=31), J(c04 + "GenericStep", n=24, noinit=1),
    ],
    "thorough": [J(c04 + h, n=n) for h in ("SliceStep", "HeapStep") for n in list(range(2, 34)) + [63, 64]] + [
        J(c04 + "GenericStep", n=n) for n in range(2, 18)] + [J(c04 + "GenericStep", n=n, noinit=1) for n in (24, 31, 32, 33, 63)] + [
        J(c04 + "SliceOps", maxn=6, ops=0, arbitrary=1),
        J(c04 + "HeapOps", fixedinit=7, ops=1, onlyremovefix=1, cfg={"Witnesses": 4, "MaxPaths": 60000000}),
        J(c04 + "SliceOps", maxn=5, ops=2),
        J(c04 + "GenericOps", maxn=5, ops=2),
        J(c04 + "HeapOps", init=4, ops=3, covers=["re-init"], cfg={"MaxPaths": 60000000}),
        J(c04 + "SliceOps", maxn=5, ops=3),
        J(c04 + "GenericOps", maxn=5, ops=3),
        J(c04 + "HeapOps", init=4, ops=4, covers=["re-init"], cfg={"MaxPaths": 60000000}),
    ],
    "bounds": {"quick": "comparator = comparison of arbitrary uninterpreted keys (every strict weak order incl. ties between different values); Slice: every valid heap of <= 4 symbolic elements (and FromSlice of every arbitrary slice <= 4), then 2 arbitrary operations Push/Pop/Peek/Remove(i)/Fix(i)/PopAll with symbolic 64-bit indices; Heap: 0..3 pushed elements + a foreign heap, 3 arbitrary operations Push/Pop/Peek/Remove(h)/Fix(h)/Init/PopAll over every choice of live, stale and foreign handles, plus every heap of exactly 6 pushed elements followed by one Remove(h)/Fix(h) of any handle (replacement moving up or down), with the heap order checked between every element and its parent through the handles' indices; generic Init/Push/Pop/Remove/Fix on a harness container of <= 4 elements, 2 operations; inductive step for all three heaps: every valid heap (heap order assumed, not built by a history) of exactly 12, 13, 15 and 31 (generic: 24) distinct elements with symbolic priorities (every strict weak order incl. ties), then one Push / Pop / Remove(every index or handle, incl. out of range) / Fix(every index or handle, new symbolic priority) (generic: also Init), with heap order between every element and its parent, content and handle indices asserted afterwards",
               "thorough": "up to 5-6 elements, 3-4 operations; inductive step for every size 2..33, 63, 64 (generic: 2..17 with Init, 24..63 without)"},
    "outside": ["PushElement of an element that is already in a heap (not in the property)", "longer operation sequences"],
    "assumptions": ["the comparator is a strict weak order (it is key(a) < key(b) for an arbitrary key function)"],
    "level_text": "Bounded symbolic model checking of heapz: element values are symbolic and the order is an uninterpreted key comparison, so heap order, minimality of Pop/Peek, multiset preservation and handle stability are decided by the solver for every strict weak order and every value multiset (ties included) within the size bounds.",
    "level_note": "Trusted: go/ssa, gosym (witness-validated), z3.",
}

# ------------------------------------------------------------------------------------------- C02
c02 = "vh/c02."
PROPS["C02"] = {
    "patterns": ["./c02"],
    "level": "model_checking",
    "quick": [
        J(c02 + "Plain", ops=3, clear=0),
        J(c02 + "Plain", ops=2, clear=1, covers=["cleared"]),
        J(c02 + "Zero", ops=2, covers=["zero cleared"]),
        J(c02 + "Cmp", ops=2, clear=1, covers=["cleared"]),
        J(c02 + "GrowShrink", a=2, b=2, c=1),
        J(c02 + "GrowShrink", a=2, b=2, c=1, cmp=1),
        J(c02 + "GrowShrink", a=2, clearmid=1, c=2),
        J(c02 + "GrowShrink", a=2, clearmid=1, c=2, cmp=1),
    ],
    "thorough": [
        J(c02 + "Plain", ops=3, clear=1, covers=["cleared"], cfg={"MaxPaths": 60000000}),
        J(c02 + "Zero", ops=3, covers=["zero cleared"]),
        J(c02 + "Cmp", ops=3, clear=1, covers=["cleared"], cfg={"MaxPaths": 60000000}),
        J(c02 + "GrowShrink", a=3, b=2, c=1, cfg={"MaxPaths": 60000000}),
        J(c02 + "GrowShrink", a=2, b=2, c=2, cmp=1, cfg={"MaxPaths": 60000000}),
    ],
    "bounds": {"quick": "SkipList[int,int]: 3 arbitrary operations (Set/SetNx/SetX/Remove/read; Clear in a 2-operation variant), SkipListWithCmp[int,int]: 2 arbitrary operations incl. Clear; with symbolic 64-bit keys and values and symbolic tower heights (every outcome of the random level choice, including towers that grow the top level and removals that shrink it), followed by a full observation: Len, Keys, Values, Head, Get/GetNode of a fresh symbolic key, Range and All with early stop after 1 or 2 callbacks, RangeWithStart(s) and RangeWithRange(s,e) for fresh symbolic bounds; comparator family: order of (key xor m) for an arbitrary 64-bit m, ascending or descending; zero-value SkipList: optional Clear first, then 2 arbitrary operations incl. Clear and the full observation; grow/shrink scripts: 2 inserts, 2 removals, 1 insert with symbolic keys and tower heights (top level grows, shrinks and grows again) followed by Len/Keys/Values/Get, and 2 inserts, Clear, 2 inserts (towers regrow over whatever Clear left in the upper levels) followed by the same observation",
               "thorough": "3 operations incl. Clear for both lists; zero value: 3 operations"},
    "outside": ["more operations", "key types other than int (same generic code)", "comparators that are not injective total orders of this family"],
    "assumptions": ["math/rand outputs are arbitrary 64-bit words (stub); the comparator is a strict total order on keys"],
    "level_text": "Bounded symbolic model checking of both skip lists against a branch-free association-list model: keys, values, query bounds and the random words that determine tower heights are symbolic, so every relative key order and every tower-height assignment within the bound is explored and every observer is decided by the solver.",
    "level_note": "Trusted: go/ssa, gosym (witness-validated; native replay steers the list's private *rand.Rand through reflection), z3.",
}

# ------------------------------------------------------------------------------------------- C03
c03 = "vh/c03."
PROPS["C03"] = {
    "patterns": ["./c03"],
    "level": "model_checking",
    "quick": [
        J(c03 + "Ops", ops=3),
        J(c03 + "Threshold", cfg={"MaxInstr": 40000000}, ops=2, window=8, winbase=4090, covers=["dense bucket"]),
        J(c03 + "Threshold", cfg={"MaxInstr": 40000000}, ops=2, window=6, winbase=61, step=2, base=0, covers=["dense bucket"]),
    ],
    "thorough": [
        J(c03 + "Ops", ops=4),
        J(c03 + "Threshold", cfg={"MaxInstr": 40000000}, ops=3, window=8, winbase=4090, highs=3, covers=["dense bucket"]),
        J(c03 + "Threshold", cfg={"MaxInstr": 40000000}, ops=2, window=12, winbase=58, step=2, base=0, highs=2, covers=["dense bucket"]),
        J(c03 + "Threshold", cfg={"MaxInstr": 40000000}, ops=2, window=8, winbase=65530, step=1, base=61440, covers=["dense bucket"]),
    ],
    "bounds": {"quick": "usable from the zero value; 3 arbitrary Add/Remove with fully symbolic uint32 values (every distribution over high-16-bit buckets, every order) then Contains of a fresh symbolic value, Len, and Iter/Range/All (complete, ascending, early stop) against a branch-free set model; threshold: a bucket pre-filled with exactly 4096 lows (0..4095, and the even numbers 0..8190), then 2 symbolic Add/Remove inside a window of 8 (6) lows across the fill boundary / a 64-bit word boundary, covering the sparse->dense conversion at the 4097th element: return values, Len, Contains of a symbolic value near the window, and complete enumeration (count, order, membership) by Iter, count by Range and All",
               "thorough": "4 operations; threshold with 3 operations, wider windows, three different high halves, a fill at the top of the low range"},
    "outside": ["more than 4 operations", "enumeration of a dense bucket with arbitrary symbolic content (forks on every bit)", "dense buckets that shrink back below the threshold by many removals"],
    "assumptions": ["skip-list tower heights are arbitrary (math/rand stub)"],
    "level_text": "Bounded symbolic model checking of RoaringBitmap (including the skip list and the Bits/Bitmap containers underneath) against a set model: values are symbolic over the whole uint32 range, and the 4096-element conversion threshold is crossed from a concretely pre-filled bucket with symbolic values in a window, including the unsafe reinterpretation of the uint16 array as 1024 uint64 words.",
    "level_note": "Trusted: go/ssa, gosym (incl. its little-endian model of the [1024]uint64 reinterpreting load), z3.",
}

# ------------------------------------------------------------------------------------------- C11
c11 = "vh/c11."
PROPS["C11"] = {
    "patterns": ["./c11"],
    "level": "model_checking",
    "concurrent": True,
    "shim": {"files": ["listz/sync_list.go"]},
    "quick": [
        J(c11 + "Conc", threads=2, ops=2, init=1, cfg={"Preempt": 2, "Witnesses": 0}),
        J(c11 + "Conc", threads=3, ops=1, init=1, cfg={"Preempt": 2, "Witnesses": 0}),
    ],
    "thorough": [
        J(c11 + "Conc", threads=2, ops=2, init=2, cfg={"Preempt": 2, "Witnesses": 0, "MaxPaths": 80000000}),
        J(c11 + "Conc", threads=2, ops=2, init=1, cfg={"Preempt": 3, "Witnesses": 0, "MaxPaths": 80000000}),
        J(c11 + "Conc", threads=2, ops=3, init=2, cfg={"Preempt": 2, "Witnesses": 0, "MaxPaths": 80000000}),
        J(c11 + "Conc", threads=3, ops=2, init=1, cfg={"Preempt": 2, "Witnesses": 0, "MaxPaths": 80000000}),
        J(c11 + "Conc", threads=2, ops=2, init=1, cfg={"Preempt": 4, "Witnesses": 0, "MaxPaths": 80000000}),
    ],
    "bounds": {"quick": "2 goroutines x 2 operations and 3 goroutines x 1 operation, each operation any of Push/Pop/Len/PopWait(0), initial content 0..1; every interleaving of the atomic steps with at most 2 preemptions (context switches at blocking/yield/exit are free), spinning pushers treated fairly; vector-clock happens-before race check on every plain access",
               "thorough": "2x3, 3x2 operations with 2 preemptions; 2x2 with 4 preemptions"},
    "outside": ["more goroutines/operations/preemptions", "PopWait with positive timeout (ticker)", "weak-memory effects (Go atomics are sequentially consistent)"],
    "assumptions": ["sync/atomic operations are sequentially consistent and are the only scheduling points (sound for data-race-free executions; races are detected on the explored schedules)", "pushed values are distinct constants (the list is generic and cannot branch on values)"],
    "level_text": "Bounded model checking of the real SyncList code under a controlled scheduler: every schedule of the atomic operations within the preemption bound is executed; each is checked for linearizability to an unbounded FIFO (Wing-Gong search on the recorded history), conservation, the Len() bounds, quiescent exactness, data races (vector clocks) and deadlock/livelock. Little scalar data is symbolic here: the solver's role is feasibility only; the deciding step is exhaustive schedule exploration within the bound.",
    "level_note": "Trusted: go/ssa, gosym scheduler and race detector, SC atomics. Counterexamples are confirmed natively: the library file is rebuilt (overlay) with sync/atomic and runtime.Gosched redirected to a shim that releases goroutines in the recorded order, so the real code replays the interleaving; races are confirmed with -race; an unconfirmed counterexample is reported as inconclusive.",
}

# ------------------------------------------------------------------------------------------- C01
c01 = "vh/c01."
CC = {"Preempt": 2, "Witnesses": 0, "MaxPaths": 80000000}
PROPS["C01"] = {
    "patterns": ["./c01"],
    "overlay": {"/repo/ringz/zz_verif_hooks.go": "inpkg/ringz_zz.go"},
    "level": "model_checking",
    "concurrent": True,
    "shim": {"files": ["ringz/sync.go"]},
    "quick": [
        J(c01 + "Public", threads=2, ops=2, maxreq=1, cfg=CC),
        J(c01 + "Wrap", threads=2, ops=2, maxreq=1, cfg=CC),
        J(c01 + "Wrap", threads=3, ops=1, maxreq=2, cfg={"Preempt": 1, "Witnesses": 0, "MaxPaths": 80000000}),
    ],
    "thorough": [
        J(c01 + "Public", threads=2, ops=2, maxreq=3, cfg=CC),
        J(c01 + "Wrap", threads=2, ops=2, maxreq=2, cfg=CC),
        J(c01 + "Wrap", threads=3, ops=1, maxreq=2, cfg=CC),
        J(c01 + "Public", threads=2, ops=3, maxreq=3, cfg=CC),
        J(c01 + "Public", threads=3, ops=1, maxreq=3, waits=1, cfg=CC),
        J(c01 + "Wrap", threads=2, ops=3, maxreq=3, cfg=CC),
        J(c01 + "Wrap", threads=3, ops=2, maxreq=2, cfg=CC),
        J(c01 + "Wrap", threads=2, ops=2, maxreq=3, nearwrap=1, cfg={"Preempt": 4, "Witnesses": 0, "MaxPaths": 80000000}),
    ],
    "bounds": {"quick": "Cap 2 (requests 1..2; Cap 4 for the 3-goroutine job), every rotation and fill; 2 goroutines x 2 operations (public API, counters from 0) and 2x2 (2 preemptions) / 3x1 (1 preemption) operations from an arbitrary invariant state whose absolute 32-bit head counter is symbolic (all 2^32 values incl. wrap-around); operations Push/Pop/Len/IsEmpty/IsFull; every interleaving of the atomic steps with at most 2 preemptions; happens-before race check on every plain access",
               "thorough": "capacities 2 and 4 with 2x2 and 3x1 at 2 preemptions, then 2x3 and 3x2 operations, PushWait(0)/PopWait(0) included, 4 preemptions for 2x2 near the counter wrap"},
    "outside": ["more goroutines/operations/preemptions", "PushWait/PopWait with negative or positive timeout under contention (spinning/ticker)", "capacities above 4", "weak-memory effects (Go atomics are sequentially consistent)"],
    "assumptions": ["sync/atomic operations are sequentially consistent and are the only scheduling points", "values are distinct constants (data independence of the generic ring)", "VerifSyncRingAt builds exactly the invariant states (checked inductively in C10)"],
    "level_text": "Bounded model checking of the real SyncRing under a controlled scheduler: every schedule of the atomic operations within the preemption bound, from every capacity/rotation/fill and (in-package variant) from every absolute counter value decided symbolically by the solver (the ticket comparisons pos != seq, pos+1 != seq, l > cap are where wrap-around bugs live); each schedule is checked for linearizability to a bounded FIFO, conservation, progress, the Len range, quiescent exactness, data races and deadlock.",
    "level_note": "Trusted: go/ssa, gosym scheduler/race detector, z3, the overlay constructor. Counterexamples are replayed natively through the atomic/Gosched shim in the recorded order.",
}

# ------------------------------------------------------------------------------------------- C12
c12 = "vh/c12."
PROPS["C12"] = {
    "patterns": ["./c12"],
    "level": "model_checking",
    "concurrent": True,
    "shim": {"files": ["mapz/safekv.go", "mapz/iter.go"], "sync": True},
    "quick": [
        J(c12 + "Conc", threads=2, ops=1, opset=0, fullinit=1, cfg={"Preempt": 2, "Witnesses": 0}, map_order="insertion"),
        J(c12 + "Conc", threads=2, ops=2, opset=1, cfg={"Preempt": 2, "Witnesses": 0, "MaxPaths": 80000000}, map_order="insertion"),
    ],
    "thorough": [
        J(c12 + "Conc", threads=2, ops=1, opset=0, fullinit=1, cfg={"Preempt": 3, "Witnesses": 0, "MaxPaths": 80000000}, map_order="insertion"),
        J(c12 + "Conc", threads=3, ops=1, opset=1, cfg={"Preempt": 2, "Witnesses": 0, "MaxPaths": 80000000}, map_order="insertion"),
        J(c12 + "Conc", threads=3, ops=1, opset=0, cfg={"Preempt": 2, "Witnesses": 0, "MaxPaths": 80000000}, map_order="insertion"),
        J(c12 + "Conc", threads=2, ops=2, opset=0, cfg={"Preempt": 2, "Witnesses": 0, "MaxPaths": 80000000}, map_order="insertion"),
        J(c12 + "Conc", threads=2, ops=1, opset=0, cfg={"Preempt": 3, "Witnesses": 0}, map_order="two"),
    ],
    "bounds": {"quick": "2 goroutines x 1 method over all 14 methods (Get/Set/SetNx/SetX/Delete/Has/Len/Keys/Values/Range/All/GetWithMap/Map/Clear) and 2 x 2 methods over SetNx/SetX/Delete/Keys/Clear, keys {1,2}, initial map empty, {1:100} or (1-method scripts) {1:100, 2:200}; every interleaving of the lock operations with at most 2 preemptions; vector-clock race check on the map, its length and the entries field",
               "thorough": "3 goroutines x 1 and 2 x 2 over all methods; 3 preemptions; map iteration order forward and reversed"},
    "outside": ["more goroutines/operations", "GetWithLock (not named in the property)", "key/value types other than int"],
    "assumptions": ["RWMutex semantics as in the Go memory model (engine model: writers exclude everyone, readers exclude writers)", "a Go map counts as one memory location for race purposes (reads race with writes), as in the race detector"],
    "level_text": "Bounded model checking of the real SafeKV under a controlled scheduler: every schedule of lock operations within the preemption bound; data races are decided by a vector-clock happens-before check on every plain access (including reads made outside the lock), atomicity by a Wing-Gong linearizability search against a plain map with snapshot results checked at a single linearization point.",
    "level_note": "Trusted: go/ssa, gosym scheduler/race detector. Races are confirmed natively with -race, atomicity violations by replaying the recorded lock order through the sync shim.",
}

# ------------------------------------------------------------------------------------------- C19
c19 = "vh/c19."
PROPS["C19"] = {
    "patterns": ["./c19"],
    "level": "model_checking",
    "concurrent": True,
    "shim": {"files": ["goz/goz.go"], "sync": True, "atomic": False, "runtime": False, "harness_uses_shims": True, "kinds": "1,2,4,6"},
    "quick": [
        J(c19 + "Limit", tasks=2, maxlimit=2, covers=["default limit", "task panicked"], cfg={"Preempt": 1, "Witnesses": 0, "MaxPaths": 80000000}),
        J(c19 + "Limit", tasks=3, maxlimit=1, covers=["default limit", "task panicked"], cfg={"Preempt": 1, "Witnesses": 0, "MaxPaths": 80000000}),
    ],
    "thorough": [
        J(c19 + "Limit", tasks=2, maxlimit=1, covers=["default limit", "task panicked"], cfg={"Preempt": 2, "Witnesses": 0, "MaxPaths": 80000000}),
        J(c19 + "Limit", tasks=2, maxlimit=2, covers=["default limit", "task panicked"], cfg={"Preempt": 2, "Witnesses": 0, "MaxPaths": 80000000}),
    ],
    "bounds": {"quick": "limit symbolic: every value below 1 (default 3) in one path, 1..2 concretised; 2 submitted functions (3 for limits <= 1), each panicking or not, with and without a configured handler; a scheduling point inside every function; afterwards n gate-synchronised functions must be inside together (a leaked slot deadlocks); schedules of the submitting goroutine and the workers at channel/WaitGroup/atomic operations with 1 preemption",
               "thorough": "the quick jobs plus 2 functions with 2 preemptions (limits <= 1 and <= 2); 4 functions with limits up to 3 and 3 functions with 2 preemptions did not finish within 20 minutes and are not registered"},
    "outside": ["Wait(timeout) (timer)", "a handler that itself panics", "more functions / preemptions"],
    "assumptions": ["channels, WaitGroup and goroutine start follow the Go memory model as implemented by the engine's scheduler", "fmt/runtime stack formatting in the nil-handler path is stubbed (empty trace)"],
    "level_text": "Bounded model checking of the real Limiter/Recover code under a controlled scheduler (goroutines created inside the library, buffered-channel semaphore, WaitGroup, nested defer/recover): every schedule within the preemption bound, for every limit and panic pattern; concurrency bound, exactly-once execution, Wait semantics, handler delivery and slot release (as absence of deadlock) are checked on each.",
    "level_note": "Trusted: go/ssa, gosym scheduler. Counterexamples are confirmed natively: goz.go is rebuilt (overlay) with its WaitGroup operations gated by the schedule controller, the harness's own atomics/gates go through the same controller, and every submitted function declares its goroutine's logical id, so the recorded order of WaitGroup/atomic/gate operations is replayed by the real code (channel operations and goroutine starts are left to the runtime); an unconfirmed counterexample is reported as inconclusive.",
}

# ------------------------------------------------------------------------------------------- C05 / C06
c05 = "vh/c05."
TR = {"MaxPaths": 80000000, "Witnesses": 6}
PROPS["C05"] = {
    "patterns": ["./c05", "./c05q"],
    "overlay": {"/repo/algz/zz_verif_hooks.go": "inpkg/algz_zz.go"},
    "level": "model_checking",
    "quick": [
        J("vh/c05q.QueueFIFO", maxcap=4, ops=4, maxhead=65536),
        J(c05 + "Queries", npat=2, plen=2, tlen=2, letters=3, invalid=1, covers=["invalid byte in text", "several occurrences"], cfg=TR),
        J(c05 + "Queries", npat=2, plen=2, tlen=3, letters=2, invalid=1, covers=["invalid byte in text", "several occurrences"], cfg=TR),
        J(c05 + "Queries", npat=3, plen=1, lastlen=3, tlen=3, letters=2, invalid=0, cfg=TR),
        J(c05 + "Queries", npat=2, plen=2, tlen=3, letters=2, invalid=0, rot=2, cfg=TR),
        J(c05 + "Queries", npat=2, plen=2, tlen=3, letters=2, invalid=0, rot=3, cfg=TR),
        J(c05 + "Queries", npat=3, len0=4, len1=3, len2=1, tlen=4, letters=2, invalid=0, cfg=TR),
        J(c05 + "Prefix", npat=2, plen=2, klen=2, letters=4, cfg=TR),
        J(c05 + "Prefix", npat=3, plen=2, klen=1, letters=3, cfg=TR),
    ],
    "thorough": [
        J("vh/c05q.QueueFIFO", maxcap=8, ops=7),
        J("vh/c05q.QueueFIFO", maxcap=5, ops=5, maxhead=1 << 24),
        J(c05 + "Queries", npat=2, plen=2, tlen=3, letters=3, invalid=1, covers=["invalid byte in text", "several occurrences"], cfg=TR),
        J(c05 + "Queries", npat=2, plen=3, tlen=4, letters=3, invalid=1, covers=["invalid byte in text", "several occurrences"], cfg=TR),
        J(c05 + "Queries", npat=3, plen=2, tlen=4, letters=2, invalid=1, cfg=TR),
        J(c05 + "Prefix", npat=3, plen=3, klen=2, letters=3, cfg=TR),
        J(c05 + "Prefix", npat=2, plen=3, klen=3, letters=4, cfg=TR),
    ],
    "bounds": {"quick": "alphabet of symbolic runes: one arbitrary 1-byte, 2-byte, 3-byte (U+FFFD included) and 4-byte rune; pattern sets: 2 patterns of 0..2 letters with texts of 0..2 letters over 3 letters / 0..3 letters over 2 letters, plus one arbitrary invalid byte at any position, and 3 patterns (two of <= 1 letter, one of 3) over 2 letters with texts <= 3 (nested, overlapping, duplicate and empty patterns all arise); 2-letter alphabets {1-byte, 2-byte}, {3-byte, 4-byte} and {4-byte, 1-byte} runes; 3 patterns of exactly 4, 3 and 1 letters over 2 letters with texts <= 4 (failure-link chains of length 2 and 3); PrefixSearch/FuzzySearch: 2 patterns <= 2 letters over 4 letters with keys <= 2, 3 patterns <= 2 over 3 letters with keys <= 1; lemma for the breadth-first order of BuildFailureLinks: the private node queue from every reachable state (capacity 1..4, symbolic head position < 65536, every fill) followed by every sequence of 4 pushes/pops and a drain pops in FIFO order (growth of a wrapped buffer included)",
               "thorough": "patterns up to 3 letters, texts up to 4, keys up to 3; queue lemma: capacity 1..8, 7 operations"},
    "outside": ["patterns that are not valid UTF-8", "more than 3 patterns / longer strings (tries whose breadth-first frontier exceeds the queue's initial capacity of 10 are covered only through the queue lemma, not end to end)", "queue head positions beyond the stated range (the counter restarts at 0 on every growth; a 32-bit wrap needs 2^32 pushes without growth)", "completeness of FuzzySearch (the property only says its results are inserted patterns)"],
    "assumptions": ["letters of different UTF-8 widths are different runes; the letter structure of patterns and texts is enumerated, the rune values and the invalid byte are symbolic"],
    "level_text": "Bounded symbolic model checking of the real Aho-Corasick trie: pattern sets and texts are enumerated as letter sequences over a symbolic alphabet whose rune values (one per UTF-8 width, plus an arbitrary invalid byte) are decided by the solver, so width-dependent offsets, the U+FFFD/invalid-byte confusion and failure-link traversal are all covered; results are compared with naive occurrence enumeration.",
    "level_note": "Trusted: go/ssa, gosym (witness-validated), z3; unicode/utf8 runs from its own SSA.",
}
PROPS["C06"] = {
    "patterns": ["./c05"],
    "level": "model_checking",
    "quick": [
        J(c05 + "Replace", npat=2, plen=2, tlen=3, letters=2, invalid=1, covers=["overlapping region"], cfg=TR),
        J(c05 + "Replace", npat=2, plen=2, tlen=2, letters=3, invalid=1, covers=["overlapping region"], cfg=TR),
        J(c05 + "Replace", npat=3, plen=1, lastlen=3, tlen=3, letters=2, invalid=0, covers=["overlapping region"], cfg=TR),
        J(c05 + "Replace", npat=3, plen=1, lastlen=3, tlen=4, letters=2, invalid=0, covers=["overlapping region"], cfg=TR),
        J(c05 + "Replace", npat=2, plen=2, tlen=3, letters=2, invalid=0, rot=2, covers=["overlapping region"], cfg=TR),
        J(c05 + "Replace", npat=2, plen=2, tlen=3, letters=2, invalid=0, rot=3, covers=["overlapping region"], cfg=TR),
        J(c05 + "Replace", npat=2, plen=2, lastlen=3, tlen=4, letters=2, invalid=0, covers=["overlapping region"], cfg=TR),
        J(c05 + "Replace", npat=2, plen=2, lastlen=3, tlen=4, letters=2, invalid=0, emptyrepl=1, cfg=TR),
        J(c05 + "Replace", npat=3, len0=1, len1=2, len2=3, tlen=4, letters=1, invalid=0, emptyrepl=1, cfg=TR),
    ],
    "thorough": [
        J(c05 + "Replace", npat=2, plen=2, tlen=3, letters=3, invalid=1, covers=["overlapping region"], cfg=TR),
        J(c05 + "Replace", npat=3, plen=1, lastlen=3, tlen=4, letters=3, invalid=0, covers=["overlapping region"], cfg=TR),
        J(c05 + "Replace", npat=2, plen=3, tlen=4, letters=3, invalid=1, covers=["overlapping region"], cfg=TR),
        J(c05 + "Replace", npat=3, plen=2, lastlen=3, tlen=4, letters=2, invalid=0, covers=["overlapping region"], cfg=TR),
        J(c05 + "Replace", npat=3, plen=1, lastlen=4, tlen=5, letters=3, invalid=0, covers=["overlapping region"], cfg=TR),
        J(c05 + "Replace", npat=2, plen=2, tlen=3, letters=3, invalid=1, rot=1, covers=["overlapping region"], cfg=TR),
        J(c05 + "Replace", npat=2, plen=2, tlen=3, letters=3, invalid=1, rot=2, covers=["overlapping region"], cfg=TR),
        J(c05 + "Replace", npat=2, plen=2, tlen=3, letters=3, invalid=1, rot=3, covers=["overlapping region"], cfg=TR),
    ],
    "bounds": {"quick": "same symbolic alphabet as C05; 2 patterns <= 2 letters with texts <= 3 letters over 2 letters / <= 2 over 3 letters (+ one invalid byte); 3 patterns (two of <= 1 letter and one of exactly 3 letters: a long occurrence ending late that starts before earlier disjoint ones) with texts <= 4 over 2 letters; the 2-letter alphabets are {1-byte, 2-byte}, {3-byte, 4-byte} and {4-byte, 1-byte} runes, the 3-letter one {1,2,3-byte}; densely nested occurrences: 2 patterns (<= 2 letters, exactly 3 letters) with texts <= 4, also with an empty replacement (output = exactly the uncovered text), and patterns a, aa, aaa on texts <= 4 over one letter; arbitrary mask rune; replacement = a byte outside the text alphabet",
               "thorough": "patterns up to 3-4 letters, texts up to 5"},
    "outside": ["replacement strings that can occur in the text (the parse of the output would be ambiguous)", "longer texts / more patterns"],
    "assumptions": ["the replacement byte 0x01 does not occur in the text alphabet (1-byte letters are >= 0x20)"],
    "level_text": "Bounded symbolic model checking of Replace/ReplaceWithMask against the coverage computed from naive occurrence enumeration, over the same symbolic alphabet as C05; totality (no panic) and exact rewriting are decided for every pattern set and text within the bound.",
    "level_note": "Trusted: go/ssa, gosym (witness-validated), z3.",
}

# ------------------------------------------------------------------------------------------- C18
c18 = "vh/c18."
PROPS["C18"] = {
    "patterns": ["./c18"],
    "level": "model_checking",
    "quick": [
        J(c18 + "Knapsack", n=3, maxw=6, maxv=9, maxW=5),
        J(c18 + "Knapsack", n=2, maxw=6, maxv=9, maxW=5, breaker=1),
        J(c18 + "Knapsack", n=0), J(c18 + "Knapsack", n=1),
        J(c18 + "Knapsack", n=5, enum=1, cfg={"MaxPaths": 60000000, "Witnesses": 4}),
        J(c18 + "SubsetSum", n=3, maxv=6, maxM=8, map_order="insertion", covers=["overflow entry"]),
        J(c18 + "SubsetSum", n=2, maxv=6, maxM=8, map_order="two", covers=["overflow entry"]),
        J(c18 + "SubsetSum", n=2, maxv=6, maxM=8, breaker=1, map_order="insertion"),
        J(c18 + "SubsetSum", n=0),
        J(c18 + "SubsetSum", n=5, mode=1, map_order="insertion", cfg={"MaxPaths": 60000000, "Witnesses": 4}),
        J(c18 + "Cliques", n=4, map_order="two"),
        J(c18 + "Cliques", n=1),
    ],
    "thorough": [
        J(c18 + "Knapsack", n=4, maxw=6, maxv=9, maxW=6, cfg={"MaxPaths": 60000000}),
        J(c18 + "Knapsack", n=3, maxw=6, maxv=9, maxW=5, breaker=1),
        J(c18 + "SubsetSum", n=4, maxv=5, maxM=8, map_order="insertion", covers=["overflow entry"], cfg={"MaxPaths": 60000000}),
        J(c18 + "SubsetSum", n=3, maxv=6, maxM=8, map_order="two", covers=["overflow entry"], cfg={"MaxPaths": 60000000}),
        J(c18 + "SubsetSum", n=2, maxv=6, maxM=8, map_order="rotations", covers=["overflow entry"]),
        J(c18 + "SubsetSum", n=6, mode=1, map_order="insertion", cfg={"MaxPaths": 60000000, "Witnesses": 4}),
        J(c18 + "SubsetSum", n=5, mode=1, breaker=1, map_order="insertion", cfg={"MaxPaths": 60000000, "Witnesses": 4}),
        J(c18 + "Cliques", n=5, map_order="two", cfg={"MaxPaths": 60000000}),
        J(c18 + "Cliques", n=3, map_order="rotations"),
    ],
    "bounds": {"quick": "Knapsack: 0..3 items with symbolic weights 0..6 and values 1..9, limit symbolic 0..5, and, enumerated rather than symbolic, 5 items with weights from {1,2,3}, values from {1,10} and limit 6 or 7 (long enough for table entries to share a backing array) (items heavier than the limit, equal weights/values, empty input), optional arbitrary tie-breaker; FindDpSolvers/Best/BestAllowMinOverflow: 0..3 items with symbolic values 1..6, limit symbolic 0..8, overflow allowed or not, optional arbitrary tie-breaker, map iteration forward (3 items) and forward/reversed (2 items), and, enumerated rather than symbolic, 5 items with values from {1,2,4,8,16} and limit 15 or 31 (selections of 3 and more items extended in several ways, so entries sharing a backing array show); GetMaximalCliques: all undirected simple graphs on 1..4 vertices (each edge a symbolic boolean), node-map iteration forward and reversed; all compared with brute force over all subsets evaluated branch-free",
               "thorough": "4 items, 5 vertices, every rotation of the map iteration order for the small cases; enumerated subset sums with 6 items, and 5 items with an arbitrary tie-breaker"},
    "outside": ["more items / vertices", "directed or self-loop graphs", "map iteration orders other than those enumerated (Go promises none; forward, reversed and rotations are explored)"],
    "assumptions": ["weights non-negative and values positive as in the property", "the tie-breaker is an arbitrary function of the candidate lengths (uninterpreted)"],
    "level_text": "Bounded symbolic model checking of the DP solvers against brute-force enumeration of all 2^n selections written as branch-free terms: weights, values and limits are symbolic, so ties, items heavier than the limit and boundary totals are decided by the solver. For the clique enumeration nothing scalar remains symbolic after the edge choices: that part is an exhaustive enumeration of small graphs carried out by the engine's forking, and is labelled so.",
    "level_note": "Trusted: go/ssa, gosym (witness-validated; Go map iteration order is modelled as forward/reversed/rotations of insertion order), z3.",
}

# ------------------------------------------------------------------------------------------- C08
c08 = "vh/c08."
PROPS["C08"] = {
    "patterns": ["./c08"],
    "level": "model_checking",
    "quick": (
        [J(c08 + "Pad", n=n, maxb=20) for n in (0, 1, 2, 3)]
        + [J(c08 + "Pad", n=17, maxb=17)]
        + [J(c08 + "UnpadArb", n=n, maxb=6) for n in (0, 1, 2, 4, 6)]
        + [J(c08 + "CBC", n=n, covers=["dst shares memory with plaintext", "dst shares memory with ciphertext"]) for n in (0, 1, 15, 16, 17, 33)]
        + [J(c08 + "CBCArb", n=n) for n in (0, 1, 15, 17)]
        + [J(c08 + "CBCArb", n=n, covers=["arbitrary ciphertext accepted", "arbitrary ciphertext rejected"]) for n in (16, 32)]
        + [J(c08 + "GCM", n=n, naad=a) for (n, a) in ((0, 0), (1, 2), (3, 1), (17, 0))]
    ),
    "thorough": (
        [J(c08 + "Pad", n=n, maxb=64) for n in (0, 1, 2, 3, 5)]
        + [J(c08 + "Pad", n=n, maxb=40) for n in (17, 40)]
        + [J(c08 + "UnpadArb", n=n, maxb=9) for n in (0, 1, 2, 4, 6, 8, 9)]
        + [J(c08 + "CBC", n=n) for n in range(0, 35)]
        + [J(c08 + "CBCArb", n=n) for n in (0, 1, 15, 16, 17, 32, 48)]
        + [J(c08 + "GCM", n=n, naad=a) for n in (0, 1, 3, 16, 17, 33) for a in (0, 1, 3)]
    ),
    "bounds": {"quick": "PKCS#7/PKCS#5: data of 0..3 and 17 symbolic bytes, block size symbolic (every value <= 0 in one path, 1..20 concretised); un-padding of arbitrary byte strings of length 0..6 with block sizes <= 6; CBC: keys of 16/24/32 and invalid 15/0/33 bytes, symbolic key, IV and plaintext of length 0, 1, 15, 16, 17, 33, dst separate or sharing memory with the source; arbitrary ciphertext of 0, 1, 15, 16, 17, 32 bytes; GCM: plaintext 0..17 bytes, aad 0..2 bytes, every single-byte change of ciphertext/tag, nonce or aad",
               "thorough": "plaintext lengths 0..34, block sizes up to 64, more GCM sizes"},
    "outside": ["AES, GHASH and the GCM tag themselves (uninterpreted functions: AES is an arbitrary keyed permutation with D_k(E_k(x)) = x, Seal an arbitrary function of its four inputs; authenticity of GCM is assumed, the wrappers' plumbing is checked)", "len(dst) larger than documented", "block sizes above the bound"],
    "assumptions": ["AES-128/192/256 block encryption is an arbitrary permutation per key (uninterpreted E/D, inverse simplified syntactically)", "GCM Open succeeds exactly on the output of a Seal with the same key, nonce and additional data (authenticity)", "the generic crypto/cipher CBC mode (executed from its own SSA) is what runs on top of the block cipher"],
    "level_text": "Bounded symbolic model checking of the real cryptz helpers with the real crypto/cipher CBC code on top of an uninterpreted block cipher: keys, IVs, nonces, plaintexts and arbitrary ciphertexts are symbolic bytes; padding, length helpers, CBC chaining (against an independent reference over the same E_k), aliasing layouts, error paths and the exact arguments reaching GCM Seal/Open are decided by the solver.",
    "level_note": "Trusted: go/ssa, gosym, z3, and the stated cryptographic assumptions (AES/GCM are not themselves verified).",
}

# ------------------------------------------------------------------------------------------- C09
c09 = "vh/c09."
PROPS["C09"] = {
    "patterns": ["./c09"],
    "level": "model_checking",
    "quick": (
        [J(c09 + "CBC", np=n, ns=s) for (n, s) in ((0, 0), (1, 1), (3, 2), (15, 1), (16, 3), (17, 1))]
        # secret lengths at which the 16+len(secret)+8 byte derivation buffer crosses 64, 128 and 256 bytes
        + [J(c09 + "CBC", np=1, ns=s) for s in (40, 41, 104, 105, 232, 233)]
        + [J(c09 + "GCM", np=1, ns=s, na=1) for s in (41, 105)]
        + [J(c09 + "GCM", np=n, ns=s, na=a) for (n, s, a) in ((0, 1, 0), (1, 1, 1), (3, 2, 2), (17, 1, 1))]
        + [J(c09 + "Garbage", n=n) for n in (0, 1, 8, 15, 16, 17, 31, 32, 33, 40)]
        + [J(c09 + "Stream", np=n, cuts=c, covers=["short read", "data returned together with EOF"]) for (n, c) in ((1, 1), (3, 2))]
        + [J(c09 + "Stream", np=0, cuts=1)]
    ),
    "thorough": (
        [J(c09 + "CBC", np=n, ns=s) for n in (0, 1, 2, 15, 16, 17, 31, 32, 33) for s in (0, 1, 3)]
        + [J(c09 + "GCM", np=n, ns=s, na=a) for n in (0, 1, 3, 16, 17) for (s, a) in ((1, 0), (2, 2), (3, 1))]
        + [J(c09 + "Garbage", n=n) for n in range(0, 41)]
        + [J(c09 + "Stream", np=n, cuts=c) for (n, c) in ((0, 1), (1, 1), (3, 2), (6, 3), (17, 2))]
    ),
    "bounds": {"quick": "plaintexts of 0, 1, 3, 15, 16, 17 symbolic bytes, secrets of 0..3 symbolic bytes and of 40, 41, 104, 105, 232, 233 symbolic bytes (where the key-derivation buffer crosses 64/128/256 bytes), additional data of 0..2 symbolic bytes (string and []byte forms), symbolic 8-byte salt; Encrypt/GCMEncrypt = base64/hex of the raw message; arbitrary text of <= 4 characters offered to the text wrappers Decrypt/GCMDecrypt; every single-byte change of the decoded GCM message (magic, salt, ciphertext, tag), of the secret or of the additional data; arbitrary input of 0, 1, 8, 15..17, 31..33, 40 symbolic bytes to every decryption entry point; streams of 0..3 plaintext bytes with up to 2 short reads at arbitrary positions per reader and data optionally returned together with EOF",
               "thorough": "plaintexts up to 33 bytes, garbage of every length 0..40, streams up to 17 bytes with 3 short reads"},
    "outside": ["Decrypt/GCMDecrypt applied to a real ciphertext TEXT: the ciphertext bytes are outputs of uninterpreted functions, so the base64/hex character decoders fork on every character (2^40+ paths); the raw-message functions they delegate to (SaltBySecretCBCDecrypt/SaltBySecretGCMDecrypt) are checked instead, and the text form of the output is checked on the encrypt side", "interoperability with the openssl binary beyond 'same byte layout and same MD5 derivation chain' (MD5/AES/GCM/CTR are uninterpreted functions)", "more than 3 short reads per stream", "writers that accept fewer bytes than offered (io.Writer contract forbids it without an error)"],
    "assumptions": ["MD5 is an uninterpreted function per input length; two derivations with different secret/salt give different keys (matching of Seal/Open is syntactic, i.e. no MD5 collision is assumed)", "AES-GCM authenticity: Open succeeds exactly on the output of a Seal with the same key, nonce and additional data", "AES-CTR is a keystream determined by key, IV and position", "crypto/rand delivers an arbitrary salt"],
    "level_text": "Bounded symbolic model checking of the real cryptz code: plaintext, secret, additional data, salt and garbage input are symbolic bytes; the OpenSSL wire format is compared with an independent EVP_BytesToKey/CBC/GCM construction over the same uninterpreted primitives, round trips and tamper rejection are decided by the solver, and the stream functions are driven through readers whose chunk sizes are symbolic.",
    "level_note": "Trusted: go/ssa, gosym, z3, and the stated cryptographic assumptions; encoding/base64, encoding/hex, io.Copy and cipher.StreamReader/Writer run from their own SSA.",
}

# the thorough tier always contains the quick jobs as well (nothing that is checked on every change is missing
# from the deep run).  Of the deeper jobs only those are registered that were observed to complete cleanly within
# the time budget of the validation sweep (checks/thorough_ok.json, written by bin/thorough_select from the
# sweep's logs); the others stay defined above but are not run.
import json as _json
import os as _os
_okp = _os.path.join(_os.path.dirname(_os.path.abspath(__file__)), "thorough_ok.json")
_OK = _json.load(open(_okp)) if _os.path.exists(_okp) and not _os.environ.get("VERIF_THOROUGH_ALL") else {}
for _id, _p in PROPS.items():
    if "thorough" in _p:
        _extra = [j for j in _p["thorough"] if j not in _p["quick"]]
        if _id in _OK:
            _allowed = {(h, l) for h, l, _w in _OK[_id]["jobs"]}
            _extra = [j for j in _extra if (j["harness"], j["label"]) in _allowed]
        _all_extra = [j for j in _p["thorough"] if j not in _p["quick"]]
        _p["thorough"] = list(_p["quick"]) + _extra
        # the bounds text of the thorough tier says exactly which deeper jobs are run
        if isinstance(_p.get("bounds"), dict):
            _short = lambda j: j["harness"].split(".")[-1] + "[" + j["label"] + "]"
            _kept = ", ".join(_short(j) for j in _extra) or "none"
            _drop = ", ".join(_short(j) for j in _all_extra if j not in _extra)
            _txt = _p["bounds"].get("thorough", "")
            _p["bounds"]["thorough"] = ("all quick jobs (bounds above) plus the deeper jobs: " + _kept + "." +
                                        (" Defined but NOT run (did not finish within the 10-20 minute budget of the validation sweep): " + _drop + "." if _drop else "") +
                                        (" Intended shape of the deeper tier: " + _txt if _txt else ""))
