#!/bin/bash
# Build the engine offline from files on disk only.
set -e
export GOFLAGS=-mod=mod GOPROXY=off GOSUMDB=off GOTOOLCHAIN=local
cd /verif/engine && go build -o /verif/bin/gosym .
