package algz

// Verification-only access to the private BFS queue of BuildFailureLinks, injected as an overlay (never
// committed to the repository).

// VerifQueue wraps a trieNodeQueue whose nodes carry an identifier in their size field.
type VerifQueue struct{ q trieNodeQueue }

// VerifQueueAt returns a queue of capacity cap in the state a history reaches after head pops and head+n
// pushes without growth: the i-th oldest node (identifier i) sits in slot (head+i) % cap.
func VerifQueueAt(cap int, head uint32, n int) *VerifQueue {
	v := &VerifQueue{}
	v.q.Init(cap)
	v.q.head, v.q.tail = head, head+uint32(n)
	for i := 0; i < n; i++ {
		v.q.nodes[(head+uint32(i))%uint32(cap)] = &trieNode{size: i}
	}
	return v
}

func (v *VerifQueue) Push(id int) { v.q.Push(&trieNode{size: id}) }

// Pop returns the identifier of the popped node, -1 when the queue reports empty.
func (v *VerifQueue) Pop() int {
	n := v.q.Pop()
	if n == nil {
		return -1
	}
	return n.size
}

func (v *VerifQueue) Len() int      { return v.q.Len() }
func (v *VerifQueue) IsEmpty() bool { return v.q.IsEmpty() }
