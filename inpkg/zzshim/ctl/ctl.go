// Package ctl (verification overlay only, never committed to the repository): native schedule controller.
// A counterexample found by the engine carries the order in which goroutines performed their
// sync/atomic operations and runtime.Gosched calls; the shims in ../satomic and ../sruntime park every
// goroutine before such an operation until it is its turn, so the real code replays that interleaving.
package ctl

import (
	"encoding/json"
	"os"
	"runtime"
	"strconv"
	"strings"
	"sync"
	"time"
)

var (
	mu     sync.Mutex
	cond   = sync.NewCond(&mu)
	sched  []int // goroutine ids of the controlled operations, in order
	pos    int
	ids    = map[int64]int{}
	active bool
	kinds  = map[int]bool{1: true, 2: true, 3: true}
	file   string
)

func goid() int64 {
	var buf [64]byte
	n := runtime.Stack(buf[:], false)
	f := strings.Fields(string(buf[:n]))
	if len(f) < 2 {
		return -1
	}
	id, _ := strconv.ParseInt(f[1], 10, 64)
	return id
}

// Enter declares the logical id of the calling goroutine (0 = the harness's main goroutine, 1.. = the
// goroutines it starts, in start order: the numbering the engine uses).  Enter(0) (re)loads the schedule.
func Enter(id int) {
	mu.Lock()
	defer mu.Unlock()
	if id == 0 {
		load()
	}
	ids[goid()] = id
}

func load() {
	ids = map[int64]int{}
	sched, pos, active = nil, 0, false
	file = os.Getenv("VERIF_REPLAY")
	b, err := os.ReadFile(file)
	if err != nil {
		return
	}
	var r struct {
		Schedule []int `json:"schedule"`
	}
	if json.Unmarshal(b, &r) != nil {
		return
	}
	// controlled operation kinds: 1 atomic operation, 2 Gosched, 3 mutex operation (default), 4 WaitGroup
	// operation, 6 harness gate (only where the property's shim gates them: VERIF_SHIM_KINDS)
	kinds = map[int]bool{}
	ks := os.Getenv("VERIF_SHIM_KINDS")
	if ks == "" {
		ks = "1,2,3"
	}
	for _, f := range strings.Split(ks, ",") {
		if k, err := strconv.Atoi(strings.TrimSpace(f)); err == nil {
			kinds[k] = true
		}
	}
	for _, e := range r.Schedule {
		if kinds[e&7] {
			sched = append(sched, e>>3)
		}
	}
	active = len(sched) > 0
}

// TurnK is Turn for an operation of the given kind; kinds that are not controlled pass at once.
func TurnK(kind int) func() {
	mu.Lock()
	ok := kinds[kind]
	mu.Unlock()
	if !ok {
		return func() {}
	}
	return Turn()
}

// Gate is a harness-level scheduling point (kind 6).
func Gate() { TurnK(6)() }

// Turn blocks until the calling goroutine is the next one in the recorded schedule and returns the function
// that passes the turn on (to be called right after the operation).
func Turn() func() {
	mu.Lock()
	if !active {
		mu.Unlock()
		return func() {}
	}
	me, ok := ids[goid()]
	if !ok {
		mu.Unlock()
		return func() {}
	}
	deadline := time.Now().Add(3 * time.Second)
	for active && pos < len(sched) && sched[pos] != me {
		if time.Now().After(deadline) {
			active = false // the native run diverged from the recorded one: stop steering
			cond.Broadcast()
			break
		}
		t := time.AfterFunc(100*time.Millisecond, func() { cond.Broadcast() })
		cond.Wait()
		t.Stop()
	}
	if !active || pos >= len(sched) {
		mu.Unlock()
		return func() {}
	}
	mu.Unlock()
	return func() {
		mu.Lock()
		pos++
		if pos >= len(sched) {
			active = false
		}
		mu.Unlock()
		cond.Broadcast()
	}
}
