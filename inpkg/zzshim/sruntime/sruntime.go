// Package sruntime (verification overlay only): the part of package runtime the concurrent library files
// use, with Gosched gated by the schedule controller.
package sruntime

import (
	"runtime"

	"github.com/welllog/golib/zzshim/ctl"
)

func Gosched() { defer ctl.TurnK(2)(); runtime.Gosched() }
