// Package satomic (verification overlay only): sync/atomic with the same function API, every operation
// gated by the schedule controller.
package satomic

import (
	"sync/atomic"
	"unsafe"

	"github.com/welllog/golib/zzshim/ctl"
)

func LoadInt32(p *int32) int32          { defer ctl.TurnK(1)(); return atomic.LoadInt32(p) }
func LoadInt64(p *int64) int64          { defer ctl.TurnK(1)(); return atomic.LoadInt64(p) }
func LoadUint32(p *uint32) uint32       { defer ctl.TurnK(1)(); return atomic.LoadUint32(p) }
func LoadUint64(p *uint64) uint64       { defer ctl.TurnK(1)(); return atomic.LoadUint64(p) }
func StoreInt32(p *int32, v int32)      { defer ctl.TurnK(1)(); atomic.StoreInt32(p, v) }
func StoreInt64(p *int64, v int64)      { defer ctl.TurnK(1)(); atomic.StoreInt64(p, v) }
func StoreUint32(p *uint32, v uint32)   { defer ctl.TurnK(1)(); atomic.StoreUint32(p, v) }
func StoreUint64(p *uint64, v uint64)   { defer ctl.TurnK(1)(); atomic.StoreUint64(p, v) }
func AddInt32(p *int32, d int32) int32  { defer ctl.TurnK(1)(); return atomic.AddInt32(p, d) }
func AddInt64(p *int64, d int64) int64  { defer ctl.TurnK(1)(); return atomic.AddInt64(p, d) }
func AddUint32(p *uint32, d uint32) uint32 { defer ctl.TurnK(1)(); return atomic.AddUint32(p, d) }
func AddUint64(p *uint64, d uint64) uint64 { defer ctl.TurnK(1)(); return atomic.AddUint64(p, d) }
func CompareAndSwapInt32(p *int32, o, n int32) bool   { defer ctl.TurnK(1)(); return atomic.CompareAndSwapInt32(p, o, n) }
func CompareAndSwapInt64(p *int64, o, n int64) bool   { defer ctl.TurnK(1)(); return atomic.CompareAndSwapInt64(p, o, n) }
func CompareAndSwapUint32(p *uint32, o, n uint32) bool { defer ctl.TurnK(1)(); return atomic.CompareAndSwapUint32(p, o, n) }
func CompareAndSwapUint64(p *uint64, o, n uint64) bool { defer ctl.TurnK(1)(); return atomic.CompareAndSwapUint64(p, o, n) }
func LoadPointer(p *unsafe.Pointer) unsafe.Pointer    { defer ctl.TurnK(1)(); return atomic.LoadPointer(p) }
func StorePointer(p *unsafe.Pointer, v unsafe.Pointer) { defer ctl.TurnK(1)(); atomic.StorePointer(p, v) }
func CompareAndSwapPointer(p *unsafe.Pointer, o, n unsafe.Pointer) bool {
	defer ctl.TurnK(1)()
	return atomic.CompareAndSwapPointer(p, o, n)
}
func SwapPointer(p *unsafe.Pointer, n unsafe.Pointer) unsafe.Pointer { defer ctl.TurnK(1)(); return atomic.SwapPointer(p, n) }
