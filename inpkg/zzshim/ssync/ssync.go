// Package ssync (verification overlay only): the sync types the concurrent library files use, with lock
// operations gated by the schedule controller (the turn is passed on before blocking).
package ssync

import (
	"sync"

	"github.com/welllog/golib/zzshim/ctl"
)

type Mutex struct{ mu sync.Mutex }

func (m *Mutex) Lock()   { ctl.Turn()(); m.mu.Lock() }
func (m *Mutex) Unlock() { defer ctl.Turn()(); m.mu.Unlock() }

type RWMutex struct{ mu sync.RWMutex }

func (m *RWMutex) Lock()    { ctl.Turn()(); m.mu.Lock() }
func (m *RWMutex) Unlock()  { defer ctl.Turn()(); m.mu.Unlock() }
func (m *RWMutex) RLock()   { ctl.Turn()(); m.mu.RLock() }
func (m *RWMutex) RUnlock() { defer ctl.Turn()(); m.mu.RUnlock() }

type WaitGroup = sync.WaitGroup
type Once = sync.Once
