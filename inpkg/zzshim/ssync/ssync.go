// Package ssync (verification overlay only): the sync types the concurrent library files use, with lock
// operations gated by the schedule controller (the turn is passed on before blocking).
package ssync

import (
	"sync"

	"github.com/welllog/golib/zzshim/ctl"
)

type Mutex struct{ mu sync.Mutex }

func (m *Mutex) Lock()   { ctl.TurnK(3)(); m.mu.Lock() }
func (m *Mutex) Unlock() { defer ctl.TurnK(3)(); m.mu.Unlock() }

type RWMutex struct{ mu sync.RWMutex }

func (m *RWMutex) Lock()    { ctl.TurnK(3)(); m.mu.Lock() }
func (m *RWMutex) Unlock()  { defer ctl.TurnK(3)(); m.mu.Unlock() }
func (m *RWMutex) RLock()   { ctl.TurnK(3)(); m.mu.RLock() }
func (m *RWMutex) RUnlock() { defer ctl.TurnK(3)(); m.mu.RUnlock() }

// WaitGroup operations are gated as kind 4 (only controlled where VERIF_SHIM_KINDS lists it).
type WaitGroup struct{ wg sync.WaitGroup }

func (w *WaitGroup) Add(d int) { defer ctl.TurnK(4)(); w.wg.Add(d) }
func (w *WaitGroup) Done()     { defer ctl.TurnK(4)(); w.wg.Done() }
func (w *WaitGroup) Wait()     { ctl.TurnK(4)(); w.wg.Wait() }
type Once = sync.Once
