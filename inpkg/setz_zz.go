package setz

import "math/bits"

// Verification-only state constructors, injected as an overlay (never committed to the repository).

// VerifBits returns a Bits whose backing words are exactly words (copied) and whose length field is the
// population count of those words: the representation invariant of Bits.
func VerifBits(words []uint64) Bits {
	set := make([]uint64, len(words))
	copy(set, words)
	n := 0
	for _, w := range set {
		n += bits.OnesCount64(w)
	}
	return Bits{length: n, Bitmap: Bitmap{set: set}}
}

// VerifWords returns a copy of the backing words.
func VerifWords(b *Bits) []uint64 { return append([]uint64(nil), b.set...) }
