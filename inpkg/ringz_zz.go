package ringz

// Verification-only state constructors, injected as an overlay (never committed to the repository).

// VerifSyncRingAt returns a SyncRing in the state a real history reaches after h0 successful pops and
// h0+len(vals) successful pushes: head = h0, tail = h0+len(vals), stored slots carry sequence p+1,
// free slots carry p (the representation invariant of the ring; re-established by every step, see C10).
func VerifSyncRingAt[T any](capReq int, h0 uint32, vals []T) *SyncRing[T] {
	r := NewSync[T](capReq)
	r.head, r.tail = h0, h0+uint32(len(vals))
	for i := uint32(0); i < r.cap; i++ {
		p := h0 + i
		s := &r.values[p&r.mask]
		if int(i) < len(vals) {
			s.pos, s.value = p+1, vals[i]
		} else {
			s.pos = p
		}
	}
	return &r
}

// VerifSyncRingInv reports whether the ring satisfies the representation invariant for (head, fill).
func VerifSyncRingInv[T any](r *SyncRing[T], h0 uint32, fill int) bool {
	if r.head != h0 || r.tail != h0+uint32(fill) {
		return false
	}
	for i := uint32(0); i < r.cap; i++ {
		p := h0 + i
		s := &r.values[p&r.mask]
		if int(i) < fill {
			if s.pos != p+1 {
				return false
			}
		} else if s.pos != p {
			return false
		}
	}
	return true
}

// VerifRoundup exposes roundupPowOfTwo.
func VerifRoundup(x uint32) uint32 { return roundupPowOfTwo(x) }
