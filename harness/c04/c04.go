// Package c04: heapz heaps as priority queues with stable element handles.
package c04

import (
	"github.com/welllog/golib/heapz"
	"vh/vx"
)

// less is an arbitrary strict weak order: comparison of arbitrary (uninterpreted) keys; different values
// may have equal keys (ties).
func less(a, b int) bool { return vx.UFInt("key", a) < vx.UFInt("key", b) }

func symInts(n int, name string) []int {
	s := make([]int, n)
	for i := range s {
		s[i] = vx.Int(name)
	}
	return s
}

func clone(s []int) []int { return append([]int(nil), s...) }

func count(s []int, v int) int {
	c := 0
	for _, x := range s {
		c += vx.IteInt(x == v, 1, 0)
	}
	return c
}

func sameMultiset(a, b []int) bool {
	if len(a) != len(b) {
		return false
	}
	r := true
	for _, x := range a {
		r = vx.And(r, count(a, x) == count(b, x))
	}
	return r
}

func isHeap(v []int) bool {
	r := true
	for i := 1; i < len(v); i++ {
		r = vx.And(r, !less(v[i], v[(i-1)/2]))
	}
	return r
}

func noneBefore(x int, rest []int) bool {
	r := true
	for _, e := range rest {
		r = vx.And(r, !less(e, x))
	}
	return r
}

func sortedSeq(s []int) bool {
	r := true
	for i := 0; i+1 < len(s); i++ {
		r = vx.And(r, !less(s[i+1], s[i]))
	}
	return r
}

// SliceOps: Slice from an arbitrary valid heap (FromSlice of a symbolic slice assumed to be a heap), then
// arbitrary operations; heap order on Values after every call, multiset preserved, Pop/Peek minimal.
func SliceOps() {
	n := vx.Choose(vx.Param("maxn", 4) + 1)
	v := symInts(n, "e")
	if vx.Param("arbitrary", 0) == 0 {
		vx.Assume(isHeap(v))
	}
	h := heapz.FromSlice(clone(v), less)
	model := clone(v)
	vx.Assert(isHeap(h.Values), "FromSlice establishes the heap order")
	vx.Assert(sameMultiset(h.Values, model), "FromSlice keeps the multiset")
	nops := vx.Param("ops", 2)
	for step := 0; step < nops; step++ {
		switch vx.Choose(6) {
		case 0:
			x := vx.Int("x")
			h.Push(x)
			model = append(model, x)
		case 1:
			x, ok := h.Pop()
			vx.Assert(ok == (len(model) > 0), "Slice.Pop fails iff empty")
			if ok {
				vx.Assert(count(model, x) > 0, "Slice.Pop returns an element of the heap")
				vx.Assert(noneBefore(x, model), "Slice.Pop returns an element that no remaining element precedes")
				model = removeOne(model, x)
			}
		case 2:
			x, ok := h.Peek()
			vx.Assert(ok == (len(model) > 0), "Slice.Peek fails iff empty")
			if ok {
				vx.Assert(noneBefore(x, model), "Slice.Peek returns an element that no element precedes")
			}
		case 3:
			i := vx.Int("i")
			before := clone(h.Values)
			x, ok := h.Remove(i)
			inRange := vx.And(i >= 0, i < len(model))
			vx.Assert(ok == inRange, "Slice.Remove(i) succeeds exactly for indices in range")
			if ok {
				vx.Assert(x == before[i], "Slice.Remove(i) removes the element at index i")
				model = removeOne(model, x)
			}
		case 4:
			i := vx.Int("i")
			nv := vx.Int("nv")
			if i >= 0 && i < len(h.Values) {
				old := h.Values[i]
				h.Values[i] = nv
				model = append(removeOne(model, old), nv)
			}
			h.Fix(i)
		case 5:
			// PopAll drains in sorted order
			var seq []int
			for x := range h.PopAll() {
				seq = append(seq, x)
			}
			vx.Assert(sortedSeq(seq), "Slice.PopAll yields a sorted sequence")
			vx.Assert(sameMultiset(seq, model), "Slice.PopAll yields every element exactly once")
			model = nil
		}
		vx.Assert(h.Len() == len(model), "Slice.Len is the multiset size")
		vx.Assert(isHeap(h.Values), "Slice.Values satisfies the heap order after every call")
		vx.Assert(sameMultiset(h.Values, model), "nothing is lost or duplicated")
	}
}

// removeOne removes one occurrence of x (which is known to be present) branch-free on values.
func removeOne(s []int, x int) []int {
	out := make([]int, 0, len(s))
	removed := false
	for _, e := range s {
		hit := vx.And(!removed, e == x)
		if hit { // forks only between equal candidates
			removed = true
			continue
		}
		out = append(out, e)
	}
	return out
}

type handle struct {
	e    *heapz.Element[int]
	live bool
	own  bool // belongs to the heap under test (not the foreign heap)
}

// HeapOps: Heap with element handles: live, popped/removed (stale) and foreign handles.
func HeapOps() {
	h := heapz.New[int](0, less)
	f := heapz.New[int](0, less)
	var hs []*handle
	hs = append(hs, &handle{e: f.Push(vx.Int("foreign")), live: true, own: false})
	n0 := vx.Param("fixedinit", 0)
	if n0 == 0 {
		n0 = vx.Choose(vx.Param("init", 3) + 1)
	}
	for i := 0; i < n0; i++ {
		hs = append(hs, &handle{e: h.Push(vx.Int("e")), live: true, own: true})
	}
	checkHandles(&h, &f, hs)
	nops := vx.Param("ops", 2)
	for step := 0; step < nops; step++ {
		op := vx.Choose(7)
		if vx.Param("onlyremovefix", 0) == 1 {
			op = 3 + op%2
		}
		switch op {
		case 0:
			hs = append(hs, &handle{e: h.Push(vx.Int("x")), live: true, own: true})
		case 1:
			e := h.Pop()
			live := liveOwn(hs)
			vx.Assert((e != nil) == (len(live) > 0), "Heap.Pop fails iff empty")
			if e != nil {
				found := false
				for _, x := range live {
					if x.e == e {
						found = true
						x.live = false
					}
				}
				vx.Assert(found, "Heap.Pop returns an element of the heap")
				vx.Assert(noneBefore(e.Value, values(liveOwn(hs))), "Heap.Pop returns an element that no remaining element precedes")
			}
		case 2:
			e := h.Peek()
			live := liveOwn(hs)
			vx.Assert((e != nil) == (len(live) > 0), "Heap.Peek fails iff empty")
			if e != nil {
				vx.Assert(noneBefore(e.Value, values(live)), "Heap.Peek returns an element that no element precedes")
			}
		case 3:
			x := hs[vx.Choose(len(hs))]
			h.Remove(x.e)
			if x.own && x.live {
				x.live = false
				vx.Assert(x.e.Index() == -1, "Remove(e) removes exactly e")
			}
		case 4:
			x := hs[vx.Choose(len(hs))]
			x.e.Value = vx.Int("nv")
			h.Fix(x.e)
		case 5:
			// re-initialise with fresh content: every earlier element has left the heap
			s := symInts(vx.Choose(3), "init")
			h.Init(s, less)
			for _, x := range hs {
				if x.own {
					x.live = false
				}
			}
			vx.Assert(h.Len() == len(s), "Init replaces the content")
			// the new content has no handles; drain it through Pop to keep the model simple
			var seq []int
			for x := range h.PopAll() {
				seq = append(seq, x)
			}
			vx.Assert(sortedSeq(seq), "Heap.PopAll yields a sorted sequence")
			vx.Assert(sameMultiset(seq, s), "Heap.PopAll yields every element exactly once")
			vx.Cover("re-init")
		case 6:
			var seq []int
			want := values(liveOwn(hs))
			for x := range h.PopAll() {
				seq = append(seq, x)
			}
			vx.Assert(sortedSeq(seq), "Heap.PopAll yields a sorted sequence")
			vx.Assert(sameMultiset(seq, want), "Heap.PopAll yields every element exactly once")
			for _, x := range hs {
				if x.own {
					x.live = false
				}
			}
		}
		checkHandles(&h, &f, hs)
	}
}

func liveOwn(hs []*handle) []*handle {
	var out []*handle
	for _, x := range hs {
		if x.own && x.live {
			out = append(out, x)
		}
	}
	return out
}

func values(hs []*handle) []int {
	var out []int
	for _, x := range hs {
		out = append(out, x.e.Value)
	}
	return out
}

func checkHandles(h, f *heapz.Heap[int], hs []*handle) {
	live := liveOwn(hs)
	vx.Assert(h.Len() == len(live), "Heap.Len is the number of live elements")
	vx.Assert(f.Len() == 1, "handles of another heap are ignored (the other heap is unaffected)")
	seen := make([]bool, len(live)+1)
	for _, x := range hs {
		if !x.own {
			vx.Assert(x.e.Index() == 0, "the foreign element stays in its own heap")
			continue
		}
		if !x.live {
			vx.AssertSig(x.e.Index() == -1, "an element that has left the heap reports Index() == -1", "stale-handle-index")
			continue
		}
		i := x.e.Index()
		ok := i >= 0 && i < len(live)
		vx.Assert(ok, "a live handle reports an index inside the heap")
		if ok {
			vx.Assert(!seen[i], "live handles report distinct indices")
			seen[i] = true
		}
	}
	if e := h.Peek(); e != nil {
		vx.Assert(noneBefore(e.Value, values(live)), "the top of the heap precedes-or-ties every live element (heap order)")
	}
	// full heap order through the handles' indices: no element precedes its parent
	byIdx := make([]*handle, len(live))
	for _, x := range live {
		if i := x.e.Index(); i >= 0 && i < len(live) {
			byIdx[i] = x
		}
	}
	ord := true
	for i := 1; i < len(byIdx); i++ {
		if byIdx[i] != nil && byIdx[(i-1)/2] != nil {
			ord = vx.And(ord, !less(byIdx[i].e.Value, byIdx[(i-1)/2].e.Value))
		}
	}
	vx.AssertSig(ord, "the heap order holds between every element and its parent after every call", "heap-order")
}

// container for the generic functions
type intHeap struct{ s []int }

func (c *intHeap) Len() int           { return len(c.s) }
func (c *intHeap) Less(i, j int) bool { return less(c.s[i], c.s[j]) }
func (c *intHeap) Swap(i, j int)      { c.s[i], c.s[j] = c.s[j], c.s[i] }
func (c *intHeap) Push(x int)         { c.s = append(c.s, x) }
func (c *intHeap) Pop() int {
	n := len(c.s) - 1
	x := c.s[n]
	c.s = c.s[:n]
	return x
}

// GenericOps: heapz.Init/Push/Pop/Remove/Fix on a caller-supplied container.
func GenericOps() {
	n := vx.Choose(vx.Param("maxn", 4) + 1)
	c := &intHeap{s: symInts(n, "e")}
	model := clone(c.s)
	heapz.Init[int](c)
	vx.Assert(isHeap(c.s), "Init establishes the heap order on the container")
	nops := vx.Param("ops", 2)
	for step := 0; step < nops; step++ {
		switch vx.Choose(4) {
		case 0:
			x := vx.Int("x")
			heapz.Push[int](c, x)
			model = append(model, x)
		case 1:
			if len(model) > 0 {
				x := heapz.Pop[int](c).(int)
				vx.Assert(noneBefore(x, model), "generic Pop returns a minimal element")
				model = removeOne(model, x)
			}
		case 2:
			if len(model) > 0 {
				i := vx.Choose(len(model))
				want := c.s[i]
				x := heapz.Remove[int](c, i).(int)
				vx.Assert(x == want, "generic Remove(i) removes the element at index i")
				model = removeOne(model, x)
			}
		case 3:
			if len(model) > 0 {
				i := vx.Choose(len(model))
				nv := vx.Int("nv")
				model = append(removeOne(model, c.s[i]), nv)
				c.s[i] = nv
				heapz.Fix[int](c, i)
			}
		}
		vx.Assert(isHeap(c.s), "the generic functions maintain the heap order on the container")
		vx.Assert(sameMultiset(c.s, model), "the generic functions keep the multiset")
	}
}

var Harnesses = map[string]func(){
	"vh/c04.SliceOps":   SliceOps,
	"vh/c04.HeapOps":    HeapOps,
	"vh/c04.GenericOps": GenericOps,
}
