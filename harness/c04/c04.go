// Package c04: heapz heaps as priority queues with stable element handles.
package c04

import (
	"github.com/welllog/golib/heapz"
	"vh/vx"
)

// less is an arbitrary strict weak order: comparison of arbitrary (uninterpreted) keys; different values
// may have equal keys (ties).
func less(a, b int) bool { return vx.UFInt("key", a) < vx.UFInt("key", b) }

func symInts(n int, name string) []int {
	s := make([]int, n)
	for i := range s {
		s[i] = vx.Int(name)
	}
	return s
}

func clone(s []int) []int { return append([]int(nil), s...) }

func count(s []int, v int) int {
	c := 0
	for _, x := range s {
		c += vx.IteInt(x == v, 1, 0)
	}
	return c
}

func sameMultiset(a, b []int) bool {
	if len(a) != len(b) {
		return false
	}
	r := true
	for _, x := range a {
		r = vx.And(r, count(a, x) == count(b, x))
	}
	return r
}

func isHeap(v []int) bool {
	r := true
	for i := 1; i < len(v); i++ {
		r = vx.And(r, !less(v[i], v[(i-1)/2]))
	}
	return r
}

func noneBefore(x int, rest []int) bool {
	r := true
	for _, e := range rest {
		r = vx.And(r, !less(e, x))
	}
	return r
}

func sortedSeq(s []int) bool {
	r := true
	for i := 0; i+1 < len(s); i++ {
		r = vx.And(r, !less(s[i+1], s[i]))
	}
	return r
}

// SliceOps: Slice from an arbitrary valid heap (FromSlice of a symbolic slice assumed to be a heap), then
// arbitrary operations; heap order on Values after every call, multiset preserved, Pop/Peek minimal.
func SliceOps() {
	n := vx.Param("fixedn", -1)
	if n < 0 {
		n = vx.Choose(vx.Param("maxn", 4) + 1)
	}
	v := symInts(n, "e")
	if vx.Param("arbitrary", 0) == 0 {
		vx.Assume(isHeap(v))
	}
	h := heapz.FromSlice(clone(v), less)
	model := clone(v)
	vx.Assert(isHeap(h.Values), "FromSlice establishes the heap order")
	vx.Assert(sameMultiset(h.Values, model), "FromSlice keeps the multiset")
	nops := vx.Param("ops", 2)
	for step := 0; step < nops; step++ {
		var op int
		if vx.Param("step", 0) == 1 {
			// inductive step from an arbitrary valid heap: only the single-element operations
			op = []int{0, 1, 3, 4}[vx.Choose(4)]
		} else {
			op = vx.Choose(6)
		}
		switch op {
		case 0:
			x := vx.Int("x")
			h.Push(x)
			model = append(model, x)
		case 1:
			x, ok := h.Pop()
			vx.Assert(ok == (len(model) > 0), "Slice.Pop fails iff empty")
			if ok {
				vx.Assert(count(model, x) > 0, "Slice.Pop returns an element of the heap")
				vx.Assert(noneBefore(x, model), "Slice.Pop returns an element that no remaining element precedes")
				model = removeOne(model, x)
			}
		case 2:
			x, ok := h.Peek()
			vx.Assert(ok == (len(model) > 0), "Slice.Peek fails iff empty")
			if ok {
				vx.Assert(noneBefore(x, model), "Slice.Peek returns an element that no element precedes")
			}
		case 3:
			i := vx.Int("i")
			before := clone(h.Values)
			x, ok := h.Remove(i)
			inRange := vx.And(i >= 0, i < len(model))
			vx.Assert(ok == inRange, "Slice.Remove(i) succeeds exactly for indices in range")
			if ok {
				vx.Assert(x == before[i], "Slice.Remove(i) removes the element at index i")
				model = removeOne(model, x)
			}
		case 4:
			i := vx.Int("i")
			nv := vx.Int("nv")
			if i >= 0 && i < len(h.Values) {
				old := h.Values[i]
				h.Values[i] = nv
				model = append(removeOne(model, old), nv)
			}
			h.Fix(i)
		case 5:
			// PopAll drains in sorted order
			var seq []int
			for x := range h.PopAll() {
				seq = append(seq, x)
			}
			vx.Assert(sortedSeq(seq), "Slice.PopAll yields a sorted sequence")
			vx.Assert(sameMultiset(seq, model), "Slice.PopAll yields every element exactly once")
			model = nil
		}
		vx.Assert(h.Len() == len(model), "Slice.Len is the multiset size")
		vx.Assert(isHeap(h.Values), "Slice.Values satisfies the heap order after every call")
		vx.Assert(sameMultiset(h.Values, model), "nothing is lost or duplicated")
	}
}

// removeOne removes one occurrence of x (which is known to be present) branch-free on values.
func removeOne(s []int, x int) []int {
	out := make([]int, 0, len(s))
	removed := false
	for _, e := range s {
		hit := vx.And(!removed, e == x)
		if hit { // forks only between equal candidates
			removed = true
			continue
		}
		out = append(out, e)
	}
	return out
}

type handle struct {
	e    *heapz.Element[int]
	live bool
	own  bool // belongs to the heap under test (not the foreign heap)
}

// HeapOps: Heap with element handles: live, popped/removed (stale) and foreign handles.
func HeapOps() {
	h := heapz.New[int](0, less)
	f := heapz.New[int](0, less)
	var hs []*handle
	hs = append(hs, &handle{e: f.Push(vx.Int("foreign")), live: true, own: false})
	n0 := vx.Param("fixedinit", 0)
	if n0 == 0 {
		n0 = vx.Choose(vx.Param("init", 3) + 1)
	}
	init := symInts(n0, "e")
	if vx.Param("heapinit", 0) == 1 {
		// an arbitrary valid heap: pushing the elements of a slice that already satisfies the heap order in index
		// order moves nothing, so element i sits at index i
		vx.Assume(isHeap(init))
	}
	for i := 0; i < n0; i++ {
		hs = append(hs, &handle{e: h.Push(init[i]), live: true, own: true})
	}
	checkHandles(&h, &f, hs)
	nops := vx.Param("ops", 2)
	for step := 0; step < nops; step++ {
		var op int
		if vx.Param("step", 0) == 1 {
			op = []int{0, 1, 3, 4}[vx.Choose(4)]
		} else {
			op = vx.Choose(7)
			if vx.Param("onlyremovefix", 0) == 1 {
				op = 3 + op%2
			}
		}
		switch op {
		case 0:
			hs = append(hs, &handle{e: h.Push(vx.Int("x")), live: true, own: true})
		case 1:
			e := h.Pop()
			live := liveOwn(hs)
			vx.Assert((e != nil) == (len(live) > 0), "Heap.Pop fails iff empty")
			if e != nil {
				found := false
				for _, x := range live {
					if x.e == e {
						found = true
						x.live = false
					}
				}
				vx.Assert(found, "Heap.Pop returns an element of the heap")
				vx.Assert(noneBefore(e.Value, values(liveOwn(hs))), "Heap.Pop returns an element that no remaining element precedes")
			}
		case 2:
			e := h.Peek()
			live := liveOwn(hs)
			vx.Assert((e != nil) == (len(live) > 0), "Heap.Peek fails iff empty")
			if e != nil {
				vx.Assert(noneBefore(e.Value, values(live)), "Heap.Peek returns an element that no element precedes")
			}
		case 3:
			x := hs[vx.Choose(len(hs))]
			h.Remove(x.e)
			if x.own && x.live {
				x.live = false
				vx.Assert(x.e.Index() == -1, "Remove(e) removes exactly e")
			}
		case 4:
			x := hs[vx.Choose(len(hs))]
			x.e.Value = vx.Int("nv")
			h.Fix(x.e)
		case 5:
			// re-initialise with fresh content: every earlier element has left the heap
			s := symInts(vx.Choose(3), "init")
			h.Init(s, less)
			for _, x := range hs {
				if x.own {
					x.live = false
				}
			}
			vx.Assert(h.Len() == len(s), "Init replaces the content")
			// the new content has no handles; drain it through Pop to keep the model simple
			var seq []int
			for x := range h.PopAll() {
				seq = append(seq, x)
			}
			vx.Assert(sortedSeq(seq), "Heap.PopAll yields a sorted sequence")
			vx.Assert(sameMultiset(seq, s), "Heap.PopAll yields every element exactly once")
			vx.Cover("re-init")
		case 6:
			var seq []int
			want := values(liveOwn(hs))
			for x := range h.PopAll() {
				seq = append(seq, x)
			}
			vx.Assert(sortedSeq(seq), "Heap.PopAll yields a sorted sequence")
			vx.Assert(sameMultiset(seq, want), "Heap.PopAll yields every element exactly once")
			for _, x := range hs {
				if x.own {
					x.live = false
				}
			}
		}
		checkHandles(&h, &f, hs)
	}
}

func liveOwn(hs []*handle) []*handle {
	var out []*handle
	for _, x := range hs {
		if x.own && x.live {
			out = append(out, x)
		}
	}
	return out
}

func values(hs []*handle) []int {
	var out []int
	for _, x := range hs {
		out = append(out, x.e.Value)
	}
	return out
}

func checkHandles(h, f *heapz.Heap[int], hs []*handle) {
	live := liveOwn(hs)
	vx.Assert(h.Len() == len(live), "Heap.Len is the number of live elements")
	vx.Assert(f.Len() == 1, "handles of another heap are ignored (the other heap is unaffected)")
	seen := make([]bool, len(live)+1)
	for _, x := range hs {
		if !x.own {
			vx.Assert(x.e.Index() == 0, "the foreign element stays in its own heap")
			continue
		}
		if !x.live {
			vx.AssertSig(x.e.Index() == -1, "an element that has left the heap reports Index() == -1", "stale-handle-index")
			continue
		}
		i := x.e.Index()
		ok := i >= 0 && i < len(live)
		vx.Assert(ok, "a live handle reports an index inside the heap")
		if ok {
			vx.Assert(!seen[i], "live handles report distinct indices")
			seen[i] = true
		}
	}
	if e := h.Peek(); e != nil {
		vx.Assert(noneBefore(e.Value, values(live)), "the top of the heap precedes-or-ties every live element (heap order)")
	}
	// full heap order through the handles' indices: no element precedes its parent
	byIdx := make([]*handle, len(live))
	for _, x := range live {
		if i := x.e.Index(); i >= 0 && i < len(live) {
			byIdx[i] = x
		}
	}
	ord := true
	for i := 1; i < len(byIdx); i++ {
		if byIdx[i] != nil && byIdx[(i-1)/2] != nil {
			ord = vx.And(ord, !less(byIdx[i].e.Value, byIdx[(i-1)/2].e.Value))
		}
	}
	vx.AssertSig(ord, "the heap order holds between every element and its parent after every call", "heap-order")
}

// container for the generic functions
type intHeap struct{ s []int }

func (c *intHeap) Len() int           { return len(c.s) }
func (c *intHeap) Less(i, j int) bool { return less(c.s[i], c.s[j]) }
func (c *intHeap) Swap(i, j int)      { c.s[i], c.s[j] = c.s[j], c.s[i] }
func (c *intHeap) Push(x int)         { c.s = append(c.s, x) }
func (c *intHeap) Pop() int {
	n := len(c.s) - 1
	x := c.s[n]
	c.s = c.s[:n]
	return x
}

// GenericOps: heapz.Init/Push/Pop/Remove/Fix on a caller-supplied container.
func GenericOps() {
	n := vx.Param("fixedn", -1)
	if n < 0 {
		n = vx.Choose(vx.Param("maxn", 4) + 1)
	}
	c := &intHeap{s: symInts(n, "e")}
	if vx.Param("heapinit", 0) == 1 {
		vx.Assume(isHeap(c.s))
	}
	model := clone(c.s)
	heapz.Init[int](c)
	vx.Assert(isHeap(c.s), "Init establishes the heap order on the container")
	nops := vx.Param("ops", 2)
	for step := 0; step < nops; step++ {
		switch vx.Choose(4) {
		case 0:
			x := vx.Int("x")
			heapz.Push[int](c, x)
			model = append(model, x)
		case 1:
			if len(model) > 0 {
				x := heapz.Pop[int](c).(int)
				vx.Assert(noneBefore(x, model), "generic Pop returns a minimal element")
				model = removeOne(model, x)
			}
		case 2:
			if len(model) > 0 {
				i := vx.Choose(len(model))
				want := c.s[i]
				x := heapz.Remove[int](c, i).(int)
				vx.Assert(x == want, "generic Remove(i) removes the element at index i")
				model = removeOne(model, x)
			}
		case 3:
			if len(model) > 0 {
				i := vx.Choose(len(model))
				nv := vx.Int("nv")
				model = append(removeOne(model, c.s[i]), nv)
				c.s[i] = nv
				heapz.Fix[int](c, i)
			}
		}
		vx.Assert(isHeap(c.s), "the generic functions maintain the heap order on the container")
		vx.Assert(sameMultiset(c.s, model), "the generic functions keep the multiset")
	}
}

var Harnesses = map[string]func(){
	"vh/c04.SliceOps":    SliceOps,
	"vh/c04.HeapOps":     HeapOps,
	"vh/c04.GenericOps":  GenericOps,
	"vh/c04.SliceStep":   SliceStep,
	"vh/c04.HeapStep":    HeapStep,
	"vh/c04.GenericStep": GenericStep,
}

// ---- inductive step from an arbitrary valid heap of a fixed larger size ----
//
// Elements are the distinct identifiers 0..n (the heaps are generic and never look into an element except
// through the comparator), their priorities are symbolic: keys[id]. The comparator is keys[a] < keys[b], so
// every strict weak order on n+1 elements (ties included) is covered, and the state before the operation is
// every array satisfying the heap order (assumed, not constructed by a history). One operation with every
// choice of index / handle follows; the heap order between every element and its parent, the content and
// the handles' indices are asserted afterwards.

type keyed struct{ keys []int }

func (k *keyed) less(a, b int) bool { return k.keys[a] < k.keys[b] }

func (k *keyed) isHeap(v []int) bool {
	r := true
	for i := 1; i < len(v); i++ {
		r = vx.And(r, !k.less(v[i], v[(i-1)/2]))
	}
	return r
}

func (k *keyed) noneBefore(x int, rest []int) bool {
	r := true
	for _, e := range rest {
		r = vx.And(r, !k.less(e, x))
	}
	return r
}

func ids(n int) []int {
	s := make([]int, n)
	for i := range s {
		s[i] = i
	}
	return s
}

// sameIDs: concrete multiset comparison of identifier slices.
func sameIDs(a, b []int) bool {
	if len(a) != len(b) {
		return false
	}
	cnt := make([]int, len(a)+len(b)+2)
	for _, x := range a {
		if x < 0 || x >= len(cnt) {
			return false
		}
		cnt[x]++
	}
	for _, x := range b {
		if x < 0 || x >= len(cnt) {
			return false
		}
		cnt[x]--
	}
	for _, c := range cnt {
		if c != 0 {
			return false
		}
	}
	return true
}

func without(s []int, x int) []int {
	var out []int
	for _, e := range s {
		if e != x {
			out = append(out, e)
		}
	}
	return out
}

// SliceStep: heapz.Slice.
func SliceStep() {
	n := vx.Param("n", 12)
	k := &keyed{keys: symInts(n+1, "k")}
	v := ids(n)
	vx.Assume(k.isHeap(v))
	// pushing the elements of a valid heap in index order moves nothing (FromSlice would fork on the order of
	// every pair of siblings)
	h := heapz.NewSlice[int](0, k.less)
	for _, id := range v {
		h.Push(id)
	}
	vx.Assert(sameIDs(h.Values, v) && h.Values[0] == 0 && h.Values[n-1] == n-1, "pushing the elements of a valid heap in index order moves nothing")
	model := clone(v)
	switch vx.Choose(4) {
	case 0:
		h.Push(n)
		model = append(model, n)
	case 1:
		x, ok := h.Pop()
		vx.Assert(ok, "Slice.Pop succeeds on a non-empty heap")
		vx.Assert(k.noneBefore(x, model), "Slice.Pop returns an element that no element precedes")
		model = without(model, x)
	case 2:
		i := vx.Choose(n+2) - 1
		before := clone(h.Values)
		x, ok := h.Remove(i)
		vx.Assert(ok == (i >= 0 && i < n), "Slice.Remove(i) succeeds exactly for indices in range")
		if ok {
			vx.Assert(x == before[i], "Slice.Remove(i) removes the element at index i")
			model = without(model, x)
		}
	case 3:
		i := vx.Choose(n+2) - 1
		if i >= 0 && i < n {
			k.keys[h.Values[i]] = vx.Int("nk")
		}
		h.Fix(i)
	}
	vx.Assert(h.Len() == len(model), "Slice.Len is the multiset size")
	vx.Assert(sameIDs(h.Values, model), "nothing is lost or duplicated")
	vx.AssertSig(k.isHeap(h.Values), "Slice.Values satisfies the heap order after one operation on an arbitrary valid heap", "heap-order-step")
}

// HeapStep: heapz.Heap with handles.
func HeapStep() {
	n := vx.Param("n", 12)
	k := &keyed{keys: symInts(n+1, "k")}
	v := ids(n)
	vx.Assume(k.isHeap(v))
	h := heapz.New[int](0, k.less)
	var hs []*heapz.Element[int]
	for i := 0; i < n; i++ {
		hs = append(hs, h.Push(i))
	}
	for i, e := range hs {
		vx.Assert(e.Index() == i, "pushing the elements of a valid heap in index order moves nothing")
	}
	live := make([]bool, n+1)
	for i := 0; i < n; i++ {
		live[i] = true
	}
	switch vx.Choose(4) {
	case 0:
		hs = append(hs, h.Push(n))
		live[n] = true
	case 1:
		e := h.Pop()
		vx.Assert(e != nil, "Heap.Pop succeeds on a non-empty heap")
		vx.Assert(k.noneBefore(e.Value, v), "Heap.Pop returns an element that no element precedes")
		vx.Assert(hs[e.Value] == e, "Heap.Pop returns the handle of its element")
		live[e.Value] = false
	case 2:
		e := hs[vx.Choose(n)]
		h.Remove(e)
		live[e.Value] = false
	case 3:
		e := hs[vx.Choose(n)]
		k.keys[e.Value] = vx.Int("nk")
		h.Fix(e)
	}
	cnt := 0
	for id, e := range hs {
		if live[id] {
			cnt++
		} else {
			vx.AssertSig(e.Index() == -1, "an element that has left the heap reports Index() == -1", "stale-handle-index")
		}
	}
	vx.Assert(h.Len() == cnt, "Heap.Len is the number of live elements")
	byIdx := make([]int, cnt)
	for i := range byIdx {
		byIdx[i] = -1
	}
	for id, e := range hs {
		if !live[id] {
			continue
		}
		i := e.Index()
		ok := i >= 0 && i < cnt
		vx.Assert(ok, "a live handle reports an index inside the heap")
		if ok {
			vx.Assert(byIdx[i] == -1, "live handles report distinct indices")
			byIdx[i] = id
		}
	}
	vx.AssertSig(k.isHeap(byIdx), "the heap order holds between every element and its parent after one operation on an arbitrary valid heap", "heap-order-step")
	if e := h.Peek(); e != nil {
		vx.Assert(e.Index() == 0 && byIdx[0] == e.Value, "Peek returns the element at index 0")
	}
}

type idHeap struct {
	s []int
	k *keyed
}

func (c *idHeap) Len() int           { return len(c.s) }
func (c *idHeap) Less(i, j int) bool { return c.k.less(c.s[i], c.s[j]) }
func (c *idHeap) Swap(i, j int)      { c.s[i], c.s[j] = c.s[j], c.s[i] }
func (c *idHeap) Push(x int)         { c.s = append(c.s, x) }
func (c *idHeap) Pop() int {
	n := len(c.s) - 1
	x := c.s[n]
	c.s = c.s[:n]
	return x
}

// GenericStep: heapz.Push/Pop/Remove/Fix on a caller-supplied container.
func GenericStep() {
	n := vx.Param("n", 12)
	k := &keyed{keys: symInts(n+1, "k")}
	v := ids(n)
	vx.Assume(k.isHeap(v))
	c := &idHeap{s: clone(v), k: k}
	model := clone(v)
	switch vx.Choose(5 - vx.Param("noinit", 0)) {
	case 0:
		heapz.Push[int](c, n)
		model = append(model, n)
	case 1:
		x := heapz.Pop[int](c).(int)
		vx.Assert(k.noneBefore(x, model), "generic Pop returns a minimal element")
		model = without(model, x)
	case 2:
		i := vx.Choose(n)
		want := c.s[i]
		x := heapz.Remove[int](c, i).(int)
		vx.Assert(x == want, "generic Remove(i) removes the element at index i")
		model = without(model, x)
	case 3:
		i := vx.Choose(n)
		k.keys[c.s[i]] = vx.Int("nk")
		heapz.Fix[int](c, i)
	case 4:
		heapz.Init[int](c)
		vx.Assert(c.s[0] == 0 && c.s[n-1] == n-1, "Init of a valid heap moves nothing")
	}
	vx.Assert(sameIDs(c.s, model), "the generic functions keep the multiset")
	vx.AssertSig(k.isHeap(c.s), "the generic functions maintain the heap order (one operation on an arbitrary valid heap)", "heap-order-step")
}
