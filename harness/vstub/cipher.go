package vstub

import "crypto/cipher"

// NewCipher has the signature of aes.NewCipher.
func NewCipher(key []byte) (cipher.Block, error) {
	b, err := NewAES(key)
	if err != nil {
		return nil, err
	}
	return b, nil
}

// NewGCMWithNonceSize has the signature of cipher.NewGCMWithNonceSize.
func NewGCMWithNonceSize(b cipher.Block, size int) (cipher.AEAD, error) {
	blk, ok := b.(*Block)
	if !ok {
		panic("vstub.NewGCM: not a stubbed block cipher")
	}
	if size <= 0 {
		return nil, errZeroNonce
	}
	return &GCM{key: blk.key, nonceSize: size}, nil
}

func NewGCM(b cipher.Block) (cipher.AEAD, error) { return NewGCMWithNonceSize(b, 12) }

// NewCTR has the signature of cipher.NewCTR.
func NewCTR(b cipher.Block, iv []byte) cipher.Stream {
	blk, ok := b.(*Block)
	if !ok {
		panic("vstub.NewCTR: not a stubbed block cipher")
	}
	if len(iv) != 16 {
		panic("cipher.NewCTR: IV length must equal block size")
	}
	return &CTR{key: blk.key, iv: append([]byte(nil), iv...)}
}
