// Package vstub holds the Go-level models that gosym substitutes for standard-library
// functions at the stub boundary (DESIGN.md section 1.4).  They are executed symbolically
// like any other Go code; only the functions without a body below are engine intrinsics
// (uninterpreted functions).  Natively this package is never called: the real standard
// library runs.
package vstub

import (
	"crypto/aes"
	"crypto/cipher"
	"hash"
	"strconv"
)

// kinds of digests
const (
	MD5 = iota + 1
	SHA1
	SHA224
	SHA256
	SHA384
	SHA512
	SHA512_224
	SHA512_256
)

var sizes = [...]int{0, 16, 20, 28, 32, 48, 64, 28, 32}
var blocks = [...]int{0, 64, 64, 64, 64, 128, 128, 128, 128}

// DigestUF is the uninterpreted digest function: equal inputs give equal outputs, nothing else is known.
// (intrinsic in the engine)
func DigestUF(kind int, data []byte) []byte { panic("vstub.DigestUF is an engine intrinsic") }

// HmacUF is the uninterpreted keyed digest. (intrinsic in the engine)
func HmacUF(kind int, key, data []byte) []byte { panic("vstub.HmacUF is an engine intrinsic") }

type Digest struct {
	kind int
	buf  []byte
}

func NewDigest(kind int) hash.Hash { return &Digest{kind: kind} }

func NewMD5() hash.Hash        { return NewDigest(MD5) }
func NewSHA1() hash.Hash       { return NewDigest(SHA1) }
func NewSHA224() hash.Hash     { return NewDigest(SHA224) }
func NewSHA256() hash.Hash     { return NewDigest(SHA256) }
func NewSHA384() hash.Hash     { return NewDigest(SHA384) }
func NewSHA512() hash.Hash     { return NewDigest(SHA512) }
func NewSHA512_224() hash.Hash { return NewDigest(SHA512_224) }
func NewSHA512_256() hash.Hash { return NewDigest(SHA512_256) }

func (d *Digest) Write(p []byte) (int, error) {
	d.buf = append(d.buf, p...)
	return len(p), nil
}
func (d *Digest) Sum(b []byte) []byte { return append(b, DigestUF(d.kind, d.buf)...) }
func (d *Digest) Reset()              { d.buf = nil }
func (d *Digest) Size() int           { return sizes[d.kind] }
func (d *Digest) BlockSize() int      { return blocks[d.kind] }

func SumMD5(data []byte) (r [16]byte)        { copy(r[:], DigestUF(MD5, data)); return }
func SumSHA1(data []byte) (r [20]byte)       { copy(r[:], DigestUF(SHA1, data)); return }
func SumSHA224(data []byte) (r [28]byte)     { copy(r[:], DigestUF(SHA224, data)); return }
func SumSHA256(data []byte) (r [32]byte)     { copy(r[:], DigestUF(SHA256, data)); return }
func SumSHA384(data []byte) (r [48]byte)     { copy(r[:], DigestUF(SHA384, data)); return }
func SumSHA512(data []byte) (r [64]byte)     { copy(r[:], DigestUF(SHA512, data)); return }
func SumSHA512_224(data []byte) (r [28]byte) { copy(r[:], DigestUF(SHA512_224, data)); return }
func SumSHA512_256(data []byte) (r [32]byte) { copy(r[:], DigestUF(SHA512_256, data)); return }

type HMAC struct {
	kind int
	key  []byte
	buf  []byte
}

func NewHMAC(h func() hash.Hash, key []byte) hash.Hash {
	d, ok := h().(*Digest)
	if !ok {
		panic("vstub.NewHMAC: hash constructor is not a stubbed digest")
	}
	return &HMAC{kind: d.kind, key: append([]byte(nil), key...)}
}

func (d *HMAC) Write(p []byte) (int, error) {
	d.buf = append(d.buf, p...)
	return len(p), nil
}
func (d *HMAC) Sum(b []byte) []byte { return append(b, HmacUF(d.kind, d.key, d.buf)...) }
func (d *HMAC) Reset()              { d.buf = nil }
func (d *HMAC) Size() int           { return sizes[d.kind] }
func (d *HMAC) BlockSize() int      { return blocks[d.kind] }

// IPv4 models net.IPv4: the 16-byte IPv4-in-IPv6 form.
func IPv4(a, b, c, d byte) []byte {
	p := make([]byte, 16)
	p[10], p[11] = 0xff, 0xff
	p[12], p[13], p[14], p[15] = a, b, c, d
	return p
}

// IPString models net.IP.String for the addresses IPv4 produces (dotted decimal).
func IPString(ip []byte) string {
	if len(ip) != 16 {
		panic("vstub.IPString: only the form produced by IPv4 is modelled")
	}
	b := make([]byte, 0, 15)
	for i := 12; i < 16; i++ {
		if i > 12 {
			b = append(b, '.')
		}
		b = strconv.AppendUint(b, uint64(ip[i]), 10)
	}
	return string(b)
}

// RandByte yields one arbitrary byte (engine intrinsic).
func RandByte() byte { panic("vstub.RandByte is an engine intrinsic") }

// RandReader stands in for crypto/rand.Reader: every Read fills the buffer completely with arbitrary bytes.
type RandReader struct{ n int }

func (r *RandReader) Read(p []byte) (int, error) {
	for i := range p {
		p[i] = RandByte()
	}
	r.n += len(p)
	return len(p), nil
}

// ---- AES as an arbitrary keyed permutation, GCM and CTR as uninterpreted functions ----

// BlockUF: dir 0 = E_k(src), 1 = D_k(src); 16 bytes in, 16 bytes out; the engine simplifies D_k(E_k(x)) = x
// and E_k(D_k(y)) = y.  (engine intrinsic)
func BlockUF(dir int, key, src []byte) []byte {
	// native body (replay): the real AES block operation
	b, err := aes.NewCipher(key)
	if err != nil {
		panic(err)
	}
	out := make([]byte, 16)
	if dir == 0 {
		b.Encrypt(out, src)
	} else {
		b.Decrypt(out, src)
	}
	return out
}

// SealUF is GCM Seal as an uninterpreted function of (key, nonce, plaintext, aad): len(plaintext)+16 bytes.
func SealUF(key, nonce, plaintext, aad []byte) []byte {
	// native body (replay): the real AES-GCM Seal
	b, err := aes.NewCipher(key)
	if err != nil {
		panic(err)
	}
	g, err := cipher.NewGCMWithNonceSize(b, len(nonce))
	if err != nil {
		panic(err)
	}
	return g.Seal(nil, nonce, plaintext, aad)
}

// OpenMatch: if ciphertext is the output of SealUF for exactly this key, nonce and aad, returns its plaintext.
// Authenticity assumption: nothing else opens.
func OpenMatch(key, nonce, ciphertext, aad []byte) ([]byte, bool) {
	panic("vstub.OpenMatch is an engine intrinsic")
}

// KeystreamUF: byte number pos of the CTR keystream determined by key and iv.
func KeystreamUF(key, iv []byte, pos int) byte { panic("vstub.KeystreamUF is an engine intrinsic") }

type Block struct{ key []byte }

var errKeySize = errorString("crypto/aes: invalid key size")

type errorString string

func (e errorString) Error() string { return string(e) }

// NewAES models aes.NewCipher: keys of 16, 24 or 32 bytes give a block cipher, anything else an error.
func NewAES(key []byte) (*Block, error) {
	switch len(key) {
	case 16, 24, 32:
		return &Block{key: append([]byte(nil), key...)}, nil
	}
	return nil, errKeySize
}

func (b *Block) BlockSize() int { return 16 }
func (b *Block) Encrypt(dst, src []byte) {
	if len(src) < 16 {
		panic("crypto/aes: input not full block")
	}
	if len(dst) < 16 {
		panic("crypto/aes: output not full block")
	}
	copy(dst[:16], BlockUF(0, b.key, src[:16]))
}
func (b *Block) Decrypt(dst, src []byte) {
	if len(src) < 16 {
		panic("crypto/aes: input not full block")
	}
	if len(dst) < 16 {
		panic("crypto/aes: output not full block")
	}
	copy(dst[:16], BlockUF(1, b.key, src[:16]))
}

type GCM struct {
	key       []byte
	nonceSize int
}

var errZeroNonce = errorString("cipher: the nonce can't have zero length, or the security of the key will be immediately compromised")
var errOpen = errorString("cipher: message authentication failed")

func (g *GCM) NonceSize() int { return g.nonceSize }
func (g *GCM) Overhead() int  { return 16 }
func (g *GCM) Seal(dst, nonce, plaintext, additionalData []byte) []byte {
	if len(nonce) != g.nonceSize {
		panic("crypto/cipher: incorrect nonce length given to GCM")
	}
	return append(dst, SealUF(g.key, nonce, plaintext, additionalData)...)
}
func (g *GCM) Open(dst, nonce, ciphertext, additionalData []byte) ([]byte, error) {
	if len(nonce) != g.nonceSize {
		panic("crypto/cipher: incorrect nonce length given to GCM")
	}
	if len(ciphertext) < 16 {
		return nil, errOpen
	}
	p, ok := OpenMatch(g.key, nonce, ciphertext, additionalData)
	if !ok {
		return nil, errOpen
	}
	return append(dst, p...), nil
}

type CTR struct {
	key, iv []byte
	pos     int
}

func (c *CTR) XORKeyStream(dst, src []byte) {
	if len(dst) < len(src) {
		panic("crypto/cipher: output smaller than input")
	}
	for i := range src {
		dst[i] = src[i] ^ KeystreamUF(c.key, c.iv, c.pos)
		c.pos++
	}
}
