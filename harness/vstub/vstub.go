// Package vstub holds the Go-level models that gosym substitutes for standard-library
// functions at the stub boundary (DESIGN.md section 1.4).  They are executed symbolically
// like any other Go code; only the functions without a body below are engine intrinsics
// (uninterpreted functions).  Natively this package is never called: the real standard
// library runs.
package vstub

import (
	"hash"
	"strconv"
)

// kinds of digests
const (
	MD5 = iota + 1
	SHA1
	SHA224
	SHA256
	SHA384
	SHA512
	SHA512_224
	SHA512_256
)

var sizes = [...]int{0, 16, 20, 28, 32, 48, 64, 28, 32}
var blocks = [...]int{0, 64, 64, 64, 64, 128, 128, 128, 128}

// DigestUF is the uninterpreted digest function: equal inputs give equal outputs, nothing else is known.
// (intrinsic in the engine)
func DigestUF(kind int, data []byte) []byte { panic("vstub.DigestUF is an engine intrinsic") }

// HmacUF is the uninterpreted keyed digest. (intrinsic in the engine)
func HmacUF(kind int, key, data []byte) []byte { panic("vstub.HmacUF is an engine intrinsic") }

type Digest struct {
	kind int
	buf  []byte
}

func NewDigest(kind int) hash.Hash { return &Digest{kind: kind} }

func NewMD5() hash.Hash        { return NewDigest(MD5) }
func NewSHA1() hash.Hash       { return NewDigest(SHA1) }
func NewSHA224() hash.Hash     { return NewDigest(SHA224) }
func NewSHA256() hash.Hash     { return NewDigest(SHA256) }
func NewSHA384() hash.Hash     { return NewDigest(SHA384) }
func NewSHA512() hash.Hash     { return NewDigest(SHA512) }
func NewSHA512_224() hash.Hash { return NewDigest(SHA512_224) }
func NewSHA512_256() hash.Hash { return NewDigest(SHA512_256) }

func (d *Digest) Write(p []byte) (int, error) {
	d.buf = append(d.buf, p...)
	return len(p), nil
}
func (d *Digest) Sum(b []byte) []byte { return append(b, DigestUF(d.kind, d.buf)...) }
func (d *Digest) Reset()              { d.buf = nil }
func (d *Digest) Size() int           { return sizes[d.kind] }
func (d *Digest) BlockSize() int      { return blocks[d.kind] }

func SumMD5(data []byte) (r [16]byte)        { copy(r[:], DigestUF(MD5, data)); return }
func SumSHA1(data []byte) (r [20]byte)       { copy(r[:], DigestUF(SHA1, data)); return }
func SumSHA224(data []byte) (r [28]byte)     { copy(r[:], DigestUF(SHA224, data)); return }
func SumSHA256(data []byte) (r [32]byte)     { copy(r[:], DigestUF(SHA256, data)); return }
func SumSHA384(data []byte) (r [48]byte)     { copy(r[:], DigestUF(SHA384, data)); return }
func SumSHA512(data []byte) (r [64]byte)     { copy(r[:], DigestUF(SHA512, data)); return }
func SumSHA512_224(data []byte) (r [28]byte) { copy(r[:], DigestUF(SHA512_224, data)); return }
func SumSHA512_256(data []byte) (r [32]byte) { copy(r[:], DigestUF(SHA512_256, data)); return }

type HMAC struct {
	kind int
	key  []byte
	buf  []byte
}

func NewHMAC(h func() hash.Hash, key []byte) hash.Hash {
	d, ok := h().(*Digest)
	if !ok {
		panic("vstub.NewHMAC: hash constructor is not a stubbed digest")
	}
	return &HMAC{kind: d.kind, key: append([]byte(nil), key...)}
}

func (d *HMAC) Write(p []byte) (int, error) {
	d.buf = append(d.buf, p...)
	return len(p), nil
}
func (d *HMAC) Sum(b []byte) []byte { return append(b, HmacUF(d.kind, d.key, d.buf)...) }
func (d *HMAC) Reset()              { d.buf = nil }
func (d *HMAC) Size() int           { return sizes[d.kind] }
func (d *HMAC) BlockSize() int      { return blocks[d.kind] }

// IPv4 models net.IPv4: the 16-byte IPv4-in-IPv6 form.
func IPv4(a, b, c, d byte) []byte {
	p := make([]byte, 16)
	p[10], p[11] = 0xff, 0xff
	p[12], p[13], p[14], p[15] = a, b, c, d
	return p
}

// IPString models net.IP.String for the addresses IPv4 produces (dotted decimal).
func IPString(ip []byte) string {
	if len(ip) != 16 {
		panic("vstub.IPString: only the form produced by IPv4 is modelled")
	}
	b := make([]byte, 0, 15)
	for i := 12; i < 16; i++ {
		if i > 12 {
			b = append(b, '.')
		}
		b = strconv.AppendUint(b, uint64(ip[i]), 10)
	}
	return string(b)
}

// RandByte yields one arbitrary byte (engine intrinsic).
func RandByte() byte { panic("vstub.RandByte is an engine intrinsic") }

// RandReader stands in for crypto/rand.Reader: every Read fills the buffer completely with arbitrary bytes.
type RandReader struct{ n int }

func (r *RandReader) Read(p []byte) (int, error) {
	for i := range p {
		p[i] = RandByte()
	}
	r.n += len(p)
	return len(p), nil
}
