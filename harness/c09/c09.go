// Package c09: secret-based encryption (cryptz/crypt.go): round trips, OpenSSL wire format, tamper evidence,
// chunked streams, garbage input.  MD5/AES/GCM/CTR are uninterpreted functions (see vh/vstub), the salt is
// arbitrary (crypto/rand stub).
package c09

import (
	"bytes"
	"crypto/md5"
	"crypto/rand"
	"encoding/base64"
	"encoding/hex"
	"io"

	"github.com/welllog/golib/cryptz"
	"vh/vstub"
	"vh/vx"
)

func noPanic(what string) {
	if r := recover(); r != nil {
		vx.Fail(what+" panics", what+"-panic")
	}
}

func clone(b []byte) []byte { return append([]byte(nil), b...) }

// evp: OpenSSL EVP_BytesToKey(MD5, one round): D1 = MD5(s|salt), D2 = MD5(D1|s|salt), D3 = MD5(D2|s|salt).
func evp(secret, salt []byte) (key, iv []byte) {
	var prev []byte
	var all []byte
	for i := 0; i < 3; i++ {
		d := md5.Sum(append(append(clone(prev), secret...), salt...))
		prev = d[:]
		all = append(all, d[:]...)
	}
	return all[:32], all[32:48]
}

func refCBC(key, iv, padded []byte) []byte {
	blk, _ := vstub.NewAES(key)
	out := make([]byte, len(padded))
	prev := iv
	for i := 0; i < len(padded); i += 16 {
		var x [16]byte
		for j := 0; j < 16; j++ {
			x[j] = padded[i+j] ^ prev[j]
		}
		blk.Encrypt(out[i:i+16], x[:])
		prev = out[i : i+16]
	}
	return out
}

// fixSalt makes crypto/rand.Reader deliver the given bytes (it is an assignable package variable), so that
// the harness knows the salt the library draws; returns the restore function.
func fixSalt(salt []byte) func() {
	old := rand.Reader
	rand.Reader = bytes.NewReader(salt)
	return func() { rand.Reader = old }
}

// CBC: SaltBySecretCBCEncrypt output is "Salted__" | salt | AES-256-CBC(EVP key/iv, PKCS#7(p)), Encrypt is its
// standard base64; SaltBySecretCBCDecrypt / Decrypt invert them for string and []byte arguments, with and
// without reuse of the ciphertext memory.
func CBC() {
	np, ns := vx.Param("np", 3), vx.Param("ns", 2)
	p, s := vx.Bytes(np, "p"), vx.Bytes(ns, "s")
	salt := vx.Bytes(8, "salt")
	if vx.Param("concrete", 0) == 1 {
		// the text wrappers decode base64 character by character: driven with concrete content (only the
		// uninterpreted primitives remain symbolic)
		for i := range p {
			p[i] = byte(0x41 + 7*i)
		}
		for i := range s {
			s[i] = byte(0x73 + i)
		}
		for i := range salt {
			salt[i] = byte(0xF0 + i)
		}
	}
	op, os := clone(p), clone(s)
	defer noPanic("Encrypt/Decrypt")
	restore := fixSalt(salt)
	raw, err := cryptz.SaltBySecretCBCEncrypt(p, s)
	restore()
	vx.Assert(err == nil, "SaltBySecretCBCEncrypt succeeds")
	encLen := (np/16 + 1) * 16
	key, iv := evp(os, salt)
	padded := clone(op)
	for i := np; i < encLen; i++ {
		padded = append(padded, byte(encLen-np))
	}
	want := append(append([]byte("Salted__"), salt...), refCBC(key, iv, padded)...)
	vx.Assert(vx.EqBytes(raw, want), "the message is Salted__ | salt | AES-256-CBC under the EVP_BytesToKey(MD5) key and IV of the PKCS#7-padded plaintext")
	restore = fixSalt(salt)
	var enc []byte
	if vx.Choose(2) == 0 {
		enc, err = cryptz.Encrypt(p, s)
	} else {
		enc, err = cryptz.Encrypt(string(p), string(s))
	}
	restore()
	vx.Assert(err == nil, "Encrypt succeeds")
	vx.Assert(vx.EqStr(string(enc), base64.StdEncoding.EncodeToString(want)), "Encrypt output is the standard base64 of that message")
	var dec []byte
	switch vx.Choose(2 + vx.Param("b64", 0)) {
	case 0:
		dec, err = cryptz.SaltBySecretCBCDecrypt(clone(raw), s, vx.Choose(2) == 1)
	case 1:
		dec, err = cryptz.SaltBySecretCBCDecrypt(clone(raw), string(s), false)
	case 2:
		dec, err = cryptz.Decrypt(enc, s)
		vx.Cover("Decrypt of base64 text")
	}
	vx.Assert(err == nil, "decryption accepts what encryption produced")
	vx.Assert(vx.EqBytes(dec, op), "Decrypt(Encrypt(p, s), s) == p")
	vx.Assert(vx.And(vx.EqBytes(p, op), vx.EqBytes(s, os)), "encryption/decryption do not modify plaintext or secret")
}

// GCM: SaltBySecretGCMEncrypt output is "Salted__" | salt | Seal(key, D3[:12], p, aad), GCMEncrypt its hex;
// decryption inverts it and fails when any byte of the message, the secret or the additional data differs.
func GCM() {
	np, ns, na := vx.Param("np", 2), vx.Param("ns", 2), vx.Param("na", 1)
	p, s, a := vx.Bytes(np, "p"), vx.Bytes(ns, "s"), vx.Bytes(na, "a")
	salt := vx.Bytes(8, "salt")
	if vx.Param("concrete", 0) == 1 {
		for i := range p {
			p[i] = byte(0x41 + 7*i)
		}
		for i := range s {
			s[i] = byte(0x73 + i)
		}
		for i := range a {
			a[i] = byte(0x61 + i)
		}
		for i := range salt {
			salt[i] = byte(0xF0 + i)
		}
	}
	op := clone(p)
	defer noPanic("GCMEncrypt/GCMDecrypt")
	restore := fixSalt(salt)
	raw, err := cryptz.SaltBySecretGCMEncrypt(p, s, a)
	restore()
	vx.Assert(err == nil, "SaltBySecretGCMEncrypt succeeds")
	key, iv := evp(s, salt)
	want := append(append([]byte("Salted__"), salt...), vstub.SealUF(key, iv[:12], op, a)...)
	vx.Assert(vx.EqBytes(raw, want), "the message is Salted__ | salt | AES-256-GCM Seal under the derived key, nonce = first 12 bytes of the derived IV, with the additional data")
	restore = fixSalt(salt)
	enc, err := cryptz.GCMEncrypt(string(p), string(s), string(a))
	restore()
	vx.Assert(err == nil, "GCMEncrypt succeeds")
	vx.Assert(vx.EqStr(string(enc), hex.EncodeToString(want)), "GCMEncrypt output is the lower-case hex of that message")
	d2, err := cryptz.SaltBySecretGCMDecrypt(clone(raw), string(s), string(a), vx.Choose(2) == 1)
	vx.Assert(err == nil && vx.EqBytes(d2, op), "SaltBySecretGCMDecrypt inverts SaltBySecretGCMEncrypt")
	if vx.Param("hex", 0) == 1 {
		dec, err := cryptz.GCMDecrypt(enc, s, a)
		vx.Assert(err == nil, "GCMDecrypt accepts what GCMEncrypt produced")
		vx.Assert(vx.EqBytes(dec, op), "GCMDecrypt(GCMEncrypt(p, s, a), s, a) == p")
		vx.Cover("GCMDecrypt of hex text")
	}
	// tamper
	delta := vx.Byte("delta")
	vx.Assume(delta != 0)
	raw2, s2, a2 := clone(raw), clone(s), clone(a)
	switch vx.Choose(3) {
	case 0:
		raw2[vx.Choose(len(raw2))] ^= delta
	case 1:
		if ns == 0 {
			return
		}
		s2[vx.Choose(ns)] ^= delta
	case 2:
		if na == 0 {
			return
		}
		a2[vx.Choose(na)] ^= delta
	}
	_, terr := cryptz.SaltBySecretGCMDecrypt(raw2, s2, a2, false)
	vx.Assert(terr != nil, "GCM decryption fails when any byte of the message, the secret or the additional data differs")
}

// Garbage: arbitrary and truncated input to every decryption entry point: an error or a result, never a panic;
// illegal lengths and wrong headers are errors.
func Garbage() {
	n := vx.Param("n", 8)
	g := vx.Bytes(n, "g")
	s := vx.Bytes(1, "s")
	defer noPanic("decryption of arbitrary input")
	which := vx.Choose(5)
	if (which == 2 || which == 3) && n > vx.Param("maxtext", 4) {
		return // text decoders fork on every character: arbitrary text is bounded separately
	}
	switch which {
	case 0:
		_, err := cryptz.SaltBySecretCBCDecrypt(clone(g), s, vx.Choose(2) == 1)
		if n < 32 || n%16 != 0 {
			vx.Assert(err != nil, "SaltBySecretCBCDecrypt rejects illegal lengths")
		} else {
			vx.Assert(vx.Implies(!vx.EqBytes(g[:8], []byte("Salted__")), err != nil), "SaltBySecretCBCDecrypt rejects a wrong magic")
		}
	case 1:
		_, err := cryptz.SaltBySecretGCMDecrypt(clone(g), s, s, vx.Choose(2) == 1)
		vx.Assert(err != nil, "SaltBySecretGCMDecrypt rejects input that is not the output of a seal (authenticity)")
	case 2:
		_, err := cryptz.Decrypt(g, s)
		_ = err
	case 3:
		_, err := cryptz.GCMDecrypt(g, s, s)
		vx.Assert(err != nil, "GCMDecrypt rejects arbitrary text")
	case 4:
		var out bytes.Buffer
		err := cryptz.DecryptStreamTo(&out, bytes.NewReader(g), s)
		if n < 16 {
			vx.Assert(err != nil, "DecryptStreamTo rejects a truncated header")
		} else {
			vx.Assert(vx.Implies(!vx.EqBytes(g[:8], []byte("Salted__")), err != nil), "DecryptStreamTo rejects a wrong magic")
		}
	}
}

// chunked reader: up to `cuts` short reads at arbitrary positions; the final chunk may be returned with io.EOF.
type reader struct {
	data    []byte
	pos     int
	cuts    int
	withEOF bool
}

func (r *reader) Read(p []byte) (int, error) {
	if r.pos >= len(r.data) {
		return 0, io.EOF
	}
	if len(p) == 0 {
		return 0, nil
	}
	n := len(r.data) - r.pos
	if len(p) < n {
		n = len(p)
	}
	if r.cuts > 0 && n > 1 {
		k := vx.Int("chunk")
		vx.Assume(vx.And(k >= 1, k <= n))
		k = vx.Concrete(k)
		if k < n {
			r.cuts--
			vx.Cover("short read")
		}
		n = k
	}
	copy(p, r.data[r.pos:r.pos+n])
	r.pos += n
	if r.pos == len(r.data) && r.withEOF {
		vx.Cover("data returned together with EOF")
		return n, io.EOF
	}
	return n, nil
}

// chunked writer: accepts everything (io.Writer contract) but records the chunking it was given
type writer struct{ buf []byte }

func (w *writer) Write(p []byte) (int, error) { w.buf = append(w.buf, p...); return len(p), nil }

// Stream: DecryptStreamTo(EncryptStreamTo(p)) == p for every chunking of both readers.
func Stream() {
	np := vx.Param("np", 2)
	p, s := vx.Bytes(np, "p"), vx.Bytes(1, "s")
	op := clone(p)
	defer noPanic("EncryptStreamTo/DecryptStreamTo")
	cuts := vx.Param("cuts", 1)
	var enc writer
	err := cryptz.EncryptStreamTo(&enc, &reader{data: p, cuts: cuts, withEOF: vx.Choose(2) == 1}, s)
	vx.Assert(err == nil, "EncryptStreamTo succeeds")
	vx.Assert(len(enc.buf) == 16+np, "the stream is header + CTR ciphertext of the same length as the plaintext")
	if len(enc.buf) != 16+np {
		return
	}
	vx.Assert(vx.EqBytes(enc.buf[:8], []byte("Salted__")), "the stream starts with Salted__")
	var dec writer
	err = cryptz.DecryptStreamTo(&dec, &reader{data: enc.buf, cuts: cuts, withEOF: vx.Choose(2) == 1}, s)
	vx.AssertSig(err == nil, "DecryptStreamTo accepts the stream for every chunking of the reader", "stream-chunking")
	if err == nil {
		vx.Assert(vx.EqBytes(dec.buf, op), "DecryptStreamTo(EncryptStreamTo(p)) == p")
	}
}

var Harnesses = map[string]func(){
	"vh/c09.CBC":     CBC,
	"vh/c09.GCM":     GCM,
	"vh/c09.Garbage": Garbage,
	"vh/c09.Stream":  Stream,
}
