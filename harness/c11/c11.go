// Package c11: SyncList as a linearizable unbounded FIFO with a sane length.
package c11

import (
	"sync"

	"github.com/welllog/golib/listz"
	zctl "github.com/welllog/golib/zzshim/ctl"
	"vh/lin"
	"vh/vx"
)

// Conc: T goroutines each run K operations chosen from Push/Pop/Len/PopWait(0) on a list with 0..init
// initial elements; every interleaving of the atomic steps (within the preemption bound) is explored.
func Conc() {
	zctl.Enter(0)
	T := vx.Param("threads", 2)
	K := vx.Param("ops", 2)
	l := listz.NewSync[int]()
	n0 := vx.Choose(vx.Param("init", 1) + 1)
	var init []int
	for i := 0; i < n0; i++ {
		l.Push(1000 + i)
		init = append(init, 1000+i)
	}
	// scripts are chosen before the goroutines start
	kinds := make([][]int, T)
	for g := 0; g < T; g++ {
		kinds[g] = make([]int, K)
		for i := 0; i < K; i++ {
			kinds[g][i] = vx.Choose(4)
		}
	}
	recs := make([][]lin.Op, T)
	var wg sync.WaitGroup
	for g := 0; g < T; g++ {
		recs[g] = make([]lin.Op, K)
		wg.Add(1)
		go func(g int) {
			defer wg.Done()
			zctl.Enter(g + 1)
			for i := 0; i < K; i++ {
				o := &recs[g][i]
				o.G = g
				switch kinds[g][i] {
				case 0:
					o.Kind, o.Arg = lin.Push, 10*(g+1)+i
					o.Inv = vx.Clock()
					l.Push(o.Arg)
					o.OK = true
					o.Res = vx.Clock()
				case 1:
					o.Kind = lin.Pop
					o.Inv = vx.Clock()
					o.Ret, o.OK = l.Pop()
					o.Res = vx.Clock()
				case 2:
					o.Kind = lin.Len
					o.Inv = vx.Clock()
					o.Ret = l.Len()
					o.Res = vx.Clock()
				case 3:
					o.Kind = lin.Pop
					o.Inv = vx.Clock()
					o.Ret, o.OK = l.PopWait(0)
					o.Res = vx.Clock()
				}
			}
		}(g)
	}
	wg.Wait()
	var h []lin.Op
	for g := 0; g < T; g++ {
		h = append(h, recs[g]...)
	}
	// Len results observed concurrently
	for _, o := range h {
		if o.Kind != lin.Len {
			continue
		}
		vx.AssertSig(o.Ret >= 0, "Len() is never negative", "len-negative")
		lower := len(init)
		for _, p := range h {
			if p.Kind == lin.Push && p.Res < o.Inv {
				lower++
			}
			if p.Kind == lin.Pop && p.OK && p.Inv < o.Res {
				lower--
			}
		}
		vx.AssertSig(o.Ret >= lower, "Len() is never less than the number of values that can currently be popped", "len-too-small")
	}
	// quiescence: exact length, then drain
	stored := len(init)
	for _, o := range h {
		if o.Kind == lin.Push {
			stored++
		}
		if o.Kind == lin.Pop && o.OK {
			stored--
		}
	}
	vx.Assert(l.Len() == stored, "Len() equals the number of stored values when no operation is in flight")
	var rest []int
	for {
		v, ok := l.Pop()
		if !ok {
			break
		}
		rest = append(rest, v)
		if len(rest) > stored+1 {
			break
		}
	}
	vx.Assert(len(rest) == stored, "every stored value can be popped after quiescence")
	vx.Assert(lin.Conservation(h, init, rest), "every pushed value is popped exactly once or remains (no loss, duplication or invention)")
	// linearizability of the concurrent part followed by the sequential drain
	t := vx.Clock()
	full := append([]lin.Op(nil), h...)
	for _, v := range rest {
		full = append(full, lin.Op{Kind: lin.Pop, OK: true, Ret: v, Inv: t, Res: t + 1})
		t += 2
	}
	vx.Assert(lin.Queue(full, init, -1), "the history is linearizable to an unbounded FIFO queue")
	vx.Assert(l.Len() == 0, "Len() is 0 after draining")
}

var Harnesses = map[string]func(){
	"vh/c11.Conc": Conc,
}
