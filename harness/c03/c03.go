// Package c03: RoaringBitmap as a set of uint32 with complete ascending enumeration.
package c03

import (
	"github.com/welllog/golib/setz"
	"vh/vx"
)

type model struct {
	nums  []uint32
	alive []bool
	gone  *model // pre-filled values that were removed again (Threshold harness)
}

func (m *model) has(x uint32) bool {
	r := false
	for i, n := range m.nums {
		r = vx.Or(r, vx.And(m.alive[i], n == x))
	}
	return r
}

func (m *model) count(pred func(uint32) bool) int {
	c := 0
	for i, n := range m.nums {
		c += vx.IteInt(vx.And(m.alive[i], pred(n)), 1, 0)
	}
	return c
}

func (m *model) size() int { return m.count(func(uint32) bool { return true }) }

func (m *model) add(x uint32) {
	had := m.has(x)
	m.nums = append(m.nums, x)
	m.alive = append(m.alive, !had)
}

func (m *model) remove(x uint32) {
	for i, n := range m.nums {
		m.alive[i] = vx.And(m.alive[i], n != x)
	}
}

func (m *model) checkEnum(what string, got []uint32, stopped bool) {
	asc := true
	for i := 0; i+1 < len(got); i++ {
		asc = vx.And(asc, got[i] < got[i+1])
	}
	vx.Assert(asc, what+": members are enumerated in strictly ascending order")
	ok := true
	for _, g := range got {
		ok = vx.And(ok, m.has(g))
	}
	vx.Assert(ok, what+": every enumerated value is a member")
	if !stopped {
		vx.AssertSig(len(got) == m.size(), what+": every member is enumerated exactly once", "enumeration-incomplete")
	} else if len(got) > 0 {
		last := got[len(got)-1]
		vx.Assert(m.count(func(n uint32) bool { return n < last }) == len(got)-1, what+": no member is skipped before the stop")
	}
}

func enumerate(r *setz.RoaringBitmap, m *model, limit int) {
	var it []uint32
	i := r.Iter()
	for i.Next() {
		it = append(it, i.Value())
		if len(it) > limit {
			vx.Fail("Iter does not terminate", "iter-runaway")
			return
		}
	}
	m.checkEnum("Iter", it, false)
	var rg []uint32
	r.Range(func(x uint32) bool { rg = append(rg, x); return true })
	m.checkEnum("Range", rg, false)
	var al []uint32
	for x := range r.All() {
		al = append(al, x)
	}
	m.checkEnum("All", al, false)
	stop := vx.Choose(2) + 1
	rg = nil
	r.Range(func(x uint32) bool { rg = append(rg, x); return len(rg) < stop })
	vx.Assert(len(rg) <= stop, "Range stops as soon as the callback returns false")
	m.checkEnum("Range(stop)", rg, len(rg) == stop)
	al = nil
	for x := range r.All() {
		al = append(al, x)
		if len(al) == stop {
			break
		}
	}
	m.checkEnum("All(stop)", al, len(al) == stop)
}

// Ops: arbitrary Add/Remove/Contains sequences over the whole uint32 range (sparse buckets).
func Ops() {
	var r setz.RoaringBitmap
	m := &model{}
	nops := vx.Param("ops", 3)
	for step := 0; step < nops; step++ {
		x := vx.Uint32("x")
		switch vx.Choose(2) {
		case 0:
			had := m.has(x)
			vx.Assert(r.Add(x) == !had, "Add reports whether membership changed")
			m.add(x)
		case 1:
			had := m.has(x)
			vx.Assert(r.Remove(x) == had, "Remove reports whether membership changed")
			m.remove(x)
		}
		vx.Assert(r.Len() == m.size(), "Len is the cardinality")
	}
	y := vx.Uint32("y")
	vx.Assert(r.Contains(y) == m.has(y), "Contains reports membership")
	enumerate(&r, m, nops+1)
}

// Threshold: a bucket holding exactly 4096 values (concrete lows 0..4095 or the even numbers) receives
// further symbolic Add/Remove in a window, crossing the sparse -> dense conversion.
func Threshold() {
	var r setz.RoaringBitmap
	high := []uint32{0, 1, 0xFFFF}[vx.Choose(vx.Param("highs", 1))] << 16 // symbolic high halves are covered by Ops
	step := uint32(vx.Param("step", 1))
	base := uint32(vx.Param("base", 0))
	n := vx.Param("fill", 4096)
	in := func(x uint32) bool { // x is one of the pre-filled lows
		lo := x & 0xFFFF
		return vx.And(x&0xFFFF0000 == high, vx.And(lo >= base, vx.And(lo < base+uint32(n)*step, (lo-base)%step == 0)))
	}
	for i := 0; i < n; i++ {
		r.Add(high | (base + uint32(i)*step))
	}
	vx.Assert(r.Len() == n, "Len after the fill")
	win := uint32(vx.Param("window", 8))
	lo0 := uint32(vx.Param("winbase", 4090))
	m := &model{}
	nops := vx.Param("ops", 2)
	total := n
	for s := 0; s < nops; s++ {
		x := vx.Uint32("x")
		vx.Assume(vx.And(x&0xFFFF0000 == high, vx.And(x&0xFFFF >= lo0, x&0xFFFF < lo0+win)))
		switch vx.Choose(2) {
		case 0:
			had := vx.Or(vx.And(in(x), !removedFill(m, x)), m.has(x))
			got := r.Add(x)
			vx.Assert(got == !had, "Add reports whether membership changed (around the threshold)")
			if got {
				total++
				if in(x) {
					unremoveFill(m, x)
				} else {
					m.add(x)
				}
			}
		case 1:
			had := vx.Or(vx.And(in(x), !removedFill(m, x)), m.has(x))
			got := r.Remove(x)
			vx.Assert(got == had, "Remove reports whether membership changed (around the threshold)")
			if got {
				total--
				if in(x) {
					removeFill(m, x)
				} else {
					m.remove(x)
				}
			}
		}
		vx.Assert(r.Len() == total, "Len is the cardinality (around the threshold)")
	}
	if total > 4096 {
		vx.Cover("dense bucket")
	}
	q := vx.Uint32("q")
	vx.Assume(vx.And(q&0xFFFF0000 == high, vx.And(q&0xFFFF >= lo0-2, q&0xFFFF < lo0+win+2)))
	want := vx.Or(vx.And(in(q), !removedFill(m, q)), m.has(q))
	vx.Assert(r.Contains(q) == want, "Contains reports membership (around the threshold)")
	// complete enumeration: count, order, membership of everything enumerated
	cnt := 0
	prev := uint32(0)
	okOrder, okMember := true, true
	it := r.Iter()
	for it.Next() {
		v := it.Value()
		if cnt > 0 {
			okOrder = vx.And(okOrder, prev < v)
		}
		if lv := v & 0xFFFF; v&0xFFFF0000 == high && (lv < lo0 || lv >= lo0+win) {
			// outside the window nothing was added or removed after the fill (x is assumed inside the window)
			okMember = vx.And(okMember, in(v))
		} else {
			okMember = vx.And(okMember, vx.Or(vx.And(in(v), !removedFill(m, v)), m.has(v)))
		}
		prev = v
		cnt++
		if cnt > total+2 {
			break
		}
	}
	vx.Assert(cnt == total, "Iter enumerates every member exactly once (around the threshold)")
	vx.Assert(okOrder, "Iter enumerates in ascending order (around the threshold)")
	vx.Assert(okMember, "Iter enumerates only members (around the threshold)")
	cnt2 := 0
	r.Range(func(uint32) bool { cnt2++; return true })
	vx.Assert(cnt2 == total, "Range enumerates every member exactly once (around the threshold)")
	cnt3 := 0
	for range r.All() {
		cnt3++
	}
	vx.Assert(cnt3 == total, "All enumerates every member exactly once (around the threshold)")
}

func rf(m *model) *model {
	if m.gone == nil {
		m.gone = &model{}
	}
	return m.gone
}

func removedFill(m *model, x uint32) bool { return rf(m).has(x) }
func removeFill(m *model, x uint32)       { rf(m).add(x) }
func unremoveFill(m *model, x uint32)     { rf(m).remove(x) }

var Harnesses = map[string]func(){
	"vh/c03.Ops":       Ops,
	"vh/c03.Threshold": Threshold,
}
