// Package c20: randz identifiers, random strings, count generator.
package c20

import (
	"strconv"
	"time"
	"unicode/utf8"

	"github.com/welllog/golib/randz"
	"vh/vx"
)

const alphabet = "0123456789abcdefghjkmnprstuvwxyz"

func inAlphabet(c byte) bool {
	r := false
	for i := 0; i < len(alphabet); i++ {
		r = vx.Or(r, c == alphabet[i])
	}
	return r
}

// Base32RoundTrip: ParseBase32(id.Base32()) == id for every non-negative ID; digits from the alphabet.
func Base32RoundTrip() {
	id := randz.ID(vx.Int64("id"))
	vx.Assume(id >= 0)
	s := id.Base32()
	ok := true
	for i := 0; i < len(s); i++ {
		ok = vx.And(ok, inAlphabet(s[i]))
	}
	vx.Assert(ok, "Base32 uses only the 32-character alphabet")
	back, err := randz.ParseBase32([]byte(s))
	vx.Assert(err == nil, "ParseBase32 accepts Base32 output")
	vx.Assert(back == id, "ParseBase32(id.Base32()) == id")
	vx.Observe("len", len(s))
}

// ParseBase32Invalid: any input with one byte outside the alphabet (all 256 values) is rejected.
func ParseBase32Invalid() {
	n := vx.Param("n", 2)
	b := vx.Bytes(n, "b")
	p := vx.Choose(n)
	vx.Assume(vx.Not(inAlphabet(b[p])))
	_, err := randz.ParseBase32(b)
	vx.AssertSig(err == randz.ErrInvalidBase32, "ParseBase32 returns ErrInvalidBase32 for input containing a byte outside the alphabet", "parsebase32-accepts-invalid-byte")
}

// ParseBase32Valid: inputs made of alphabet characters decode positionally.
func ParseBase32Valid() {
	n := vx.Param("n", 2)
	b := make([]byte, n)
	var want int64
	for i := range b {
		d := vx.Byte("d")
		vx.Assume(d < 32)
		b[i] = alphabet[d]
		want = want*32 + int64(d)
	}
	got, err := randz.ParseBase32(b)
	vx.Assert(vx.And(err == nil, int64(got) == want), "ParseBase32 decodes alphabet characters positionally")
}

// Numerals: Base2 / Base36 / String are the standard numerals (small values: strconv's digit loops).
func Numerals() {
	v := vx.Int64("id")
	vx.Assume(vx.And(v >= 0, v < int64(vx.Param("max", 1000))))
	id := randz.ID(v)
	vx.Assert(vx.EqStr(id.String(), strconv.FormatInt(v, 10)), "String is the decimal numeral")
	vx.Assert(vx.EqStr(id.Base2(), strconv.FormatInt(v, 2)), "Base2 is the binary numeral")
	vx.Assert(vx.EqStr(id.Base36(), strconv.FormatInt(v, 36)), "Base36 is the base-36 numeral")
	vx.Assert(id.Int64() == v, "Int64 is the value")
}

// IdGen: every randBit, every random draw (crypto/rand or the fallback), every elapsed time below 2^41 ms.
func IdGen() {
	start := time.Now()
	rb := vx.Int("randBit")
	g := randz.NewIdGenerator(start, rb)
	eff := rb
	if eff <= 1 {
		eff = 16
	}
	if eff > 22 {
		eff = 22
	}
	lo := time.Since(start).Milliseconds()
	id1 := int64(g.Generate())
	mid := time.Since(start).Milliseconds()
	id2 := int64(g.Generate())
	hi := time.Since(start).Milliseconds()
	vx.Assume(hi < 1<<41)
	vx.Assert(vx.And(id1 >= 0, id2 >= 0), "IDs are non-negative")
	t1, t2 := id1>>uint(eff), id2>>uint(eff)
	vx.Assert(vx.And(lo <= t1, t1 <= mid), "the ID carries the elapsed milliseconds above its random bits")
	vx.Assert(vx.And(mid <= t2, t2 <= hi), "the second ID carries the elapsed milliseconds above its random bits")
	vx.Assert(vx.Implies(t1 < t2, id1 < id2), "IDs taken at least a millisecond apart are increasing")
}

type src struct{ words []int64 }

func (s *src) Int63() int64 {
	if len(s.words) == 0 {
		return 0
	}
	w := s.words[0]
	s.words = s.words[1:]
	return w
}
func (s *src) Seed(int64) {}

// StrGen: character set of k arbitrary runes, n runes requested; the source yields `words` arbitrary 63-bit
// words and zeros afterwards (index 0 is always accepted, so the rejection loop terminates).
func StrGen() {
	k := vx.Param("k", 2)
	n := vx.Choose(vx.Param("maxn", 3) + 1)
	var cs []byte
	set := make([]rune, k)
	same := vx.Param("samewidth", 0) == 1
	lo, hi := rune(0), rune(utf8.MaxRune)
	if same {
		switch vx.Choose(4) {
		case 0:
			lo, hi = 0, 0x7F
		case 1:
			lo, hi = 0x80, 0x7FF
		case 2:
			lo, hi = 0x800, 0xFFFF
		case 3:
			lo, hi = 0x10000, utf8.MaxRune
		}
	}
	for i := range set {
		r := vx.Rune("c")
		vx.Assume(vx.And(r >= lo, vx.And(r <= hi, vx.Not(vx.And(r >= 0xD800, r <= 0xDFFF)))))
		set[i] = r
		cs = utf8.AppendRune(cs, r)
	}
	s := &src{}
	for i := 0; i < vx.Param("words", 1); i++ {
		w := vx.Int64("w")
		vx.Assume(vx.And(w >= 0, w < int64(1)<<uint(vx.Param("wbits", 6))))
		s.words = append(s.words, w)
	}
	g := randz.NewStrGenerator(string(cs), s)
	out := g.Generate(n)
	if vx.Param("samewidth", 0) == 1 {
		// all runes of the set have the same UTF-8 width w: the output must be n chunks of w bytes, each
		// equal to the encoding of some rune of the set (branch-free; no re-decoding of symbolic output)
		w := len(cs) / k
		vx.Assert(len(out) == n*w, "Generate(n) returns exactly n runes")
		ok := true
		for i := 0; i < n && len(out) == n*w; i++ {
			m := false
			for j := range set {
				enc := string(cs[j*w : (j+1)*w])
				m = vx.Or(m, vx.EqStr(out[i*w:(i+1)*w], enc))
			}
			ok = vx.And(ok, m)
		}
		vx.Assert(ok, "every generated rune is drawn from the character set")
		return
	}
	rs := []rune(out)
	vx.Assert(len(rs) == n, "Generate(n) returns exactly n runes")
	ok := true
	for _, r := range rs {
		m := false
		for _, c := range set {
			m = vx.Or(m, r == c)
		}
		ok = vx.And(ok, m)
	}
	vx.Assert(ok, "every generated rune is drawn from the character set")
	vx.Assert(utf8.ValidString(out), "the generated string is valid UTF-8")
}

// CountGen: Generate is non-decreasing in the elapsed time and stays between Min and Max.
func CountGen() {
	nr := vx.Param("rules", 1)
	maxp := vx.Param("maxparam", 15)
	var g randz.CountGenerator
	for i := 0; i < nr; i++ {
		var ps [4]int
		for j := range ps {
			ps[j] = vx.Int("p")
			vx.Assume(vx.And(ps[j] >= 1, ps[j] <= maxp))
		}
		g.AddRule(ps[0], ps[1], ps[2], ps[3])
	}
	id := string(vx.Bytes(vx.Param("idlen", 2), "id"))
	d1, d2 := vx.Int("d1"), vx.Int("d2")
	vx.Assume(vx.And(d1 <= d2, d2 <= vx.Param("maxdiff", 64)))
	c1, c2 := g.Generate(id, d1), g.Generate(id, d2)
	vx.Assert(c1 <= c2, "CountGenerator.Generate is non-decreasing in the elapsed time")
	vx.Assert(vx.And(g.Min(d2) <= c2, c2 <= g.Max(d2)), "CountGenerator.Generate stays between Min and Max")
}

var Harnesses = map[string]func(){
	"vh/c20.Base32RoundTrip":    Base32RoundTrip,
	"vh/c20.ParseBase32Invalid": ParseBase32Invalid,
	"vh/c20.ParseBase32Valid":   ParseBase32Valid,
	"vh/c20.Numerals":           Numerals,
	"vh/c20.IdGen":              IdGen,
	"vh/c20.StrGen":             StrGen,
	"vh/c20.CountGen":           CountGen,
}
