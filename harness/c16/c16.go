// Package c16: setz.Bits / setz.Bitmap / dsz.Bits as sets of unsigned integers.
package c16

import (
	"math/bits"

	"github.com/welllog/golib/dsz"
	"github.com/welllog/golib/setz"
	"vh/vx"
)

// model: list of distinct numbers with alive flags (all symbolic, branch-free queries)
type model struct {
	nums  []uint
	alive []bool
}

func (m *model) has(x uint) bool {
	r := false
	for i, n := range m.nums {
		r = vx.Or(r, vx.And(m.alive[i], n == x))
	}
	return r
}

func (m *model) count() int {
	c := 0
	for _, a := range m.alive {
		c += vx.IteInt(a, 1, 0)
	}
	return c
}

func (m *model) add(x uint) { m.nums = append(m.nums, x); m.alive = append(m.alive, true) }

func (m *model) remove(x uint) {
	for i, n := range m.nums {
		m.alive[i] = vx.And(m.alive[i], n != x)
	}
}

func (m *model) clone() *model {
	return &model{append([]uint(nil), m.nums...), append([]bool(nil), m.alive...)}
}

func symNum(limit int) uint {
	x := vx.Uint("x")
	vx.Assume(x < uint(limit))
	return x
}

// BitsSym: two Bits sets, symbolic numbers below 64*words, element and bulk operations; checked through
// return values, Len and Contains of a fresh symbolic number (no enumeration: see BitsEnum).
func BitsSym() {
	words := vx.Param("words", 3)
	limit := 64 * words
	nops := vx.Param("ops", 3)
	var a, b setz.Bits
	ma, mb := &model{}, &model{}
	// Len is observed either after every call or only at the very end (an observer that is called after every
	// step would hide a cached length that is only repaired by Len itself)
	lenAtEnd := vx.Param("lenmode", 0) == 1 && vx.Choose(2) == 1
	for step := 0; step < nops; step++ {
		s, m := &a, ma
		o, mo := &b, mb
		if vx.Choose(2) == 1 {
			s, m, o, mo = &b, mb, &a, ma
		}
		switch vx.Choose(8) {
		case 0:
			x := symNum(limit)
			mem := m.has(x)
			got := s.Add(x)
			vx.Assert(got == !mem, "Add reports whether membership changed")
			if got {
				m.add(x)
			}
		case 1:
			x := symNum(limit)
			mem := m.has(x)
			got := s.Remove(x)
			vx.Assert(got == mem, "Remove reports whether membership changed")
			m.remove(x)
		case 2:
			before := mo.clone()
			s.Diff(*o)
			for i, n := range m.nums {
				m.alive[i] = vx.And(m.alive[i], !before.has(n))
			}
			checkSetL(o, before, limit, "other operand untouched by Diff", !lenAtEnd)
		case 3:
			before := mo.clone()
			s.Intersect(*o)
			for i, n := range m.nums {
				m.alive[i] = vx.And(m.alive[i], before.has(n))
			}
			checkSetL(o, before, limit, "other operand untouched by Intersect", !lenAtEnd)
		case 4:
			before := mo.clone()
			s.Merge(*o)
			for i, n := range before.nums {
				if before.alive[i] { // forks, but keeps the model's numbers distinct
					if !m.has(n) {
						m.add(n)
					}
				}
			}
			checkSetL(o, before, limit, "other operand untouched by Merge", !lenAtEnd)
		case 5:
			c := s.Clone()
			x := symNum(limit)
			c.Add(x)
			// the clone is independent: the source is unchanged
		case 6:
			capBefore := s.Cap()
			s.Grow(symNum(limit))
			vx.Assert(s.Cap() >= capBefore, "Grow never shrinks")
		case 7:
			// observers only
		}
		last := step == nops-1
		checkSetL(s, m, limit, "set", !lenAtEnd || last)
		checkSetL(o, mo, limit, "other set", !lenAtEnd || last)
	}
}

func checkSet(s *setz.Bits, m *model, limit int, what string) { checkSetL(s, m, limit, what, true) }

func checkSetL(s *setz.Bits, m *model, limit int, what string, withLen bool) {
	if withLen {
		vx.Assert(s.Len() == m.count(), what+": Len equals the cardinality")
		vx.Assert(s.Bitmap.Len() == m.count(), what+": Bitmap.Len equals the cardinality")
	}
	y := symNum(limit + 64)
	vx.Assert(s.Contains(y) == m.has(y), what+": Contains reports membership")
}

var allCandidates = []uint{63, 64, 0, 127, 128, 65, 1, 62, 126, 129, 191, 200}

func sortedModel(present []bool) []uint {
	var out []uint
	for i, p := range present {
		if p {
			out = append(out, uint(i))
		}
	}
	return out
}

func eqUints(a, b []uint) bool {
	if len(a) != len(b) {
		return false
	}
	for i := range a {
		if a[i] != b[i] {
			return false
		}
	}
	return true
}

// BitsEnum: numbers drawn from the word-boundary candidates; after every operation Iter, Range, All (and the
// early-stopping forms) enumerate exactly the members in ascending order. Concrete enumeration by forking.
func BitsEnum() {
	nops := vx.Param("ops", 3)
	candidates := allCandidates[:vx.Param("cands", len(allCandidates))]
	var a, b setz.Bits
	pa, pb := make([]bool, 256), make([]bool, 256)
	for step := 0; step < nops; step++ {
		s, p, o, po := &a, pa, &b, pb
		if vx.Choose(2) == 1 {
			s, p, o, po = &b, pb, &a, pa
		}
		switch vx.Choose(5) {
		case 0:
			x := candidates[vx.Choose(len(candidates))]
			vx.Assert(s.Add(x) == !p[x], "Add reports whether membership changed")
			p[x] = true
		case 1:
			x := candidates[vx.Choose(len(candidates))]
			vx.Assert(s.Remove(x) == p[x], "Remove reports whether membership changed")
			p[x] = false
		case 2:
			s.Diff(*o)
			for i := range p {
				p[i] = p[i] && !po[i]
			}
		case 3:
			s.Intersect(*o)
			for i := range p {
				p[i] = p[i] && po[i]
			}
		case 4:
			s.Merge(*o)
			for i := range p {
				p[i] = p[i] || po[i]
			}
		}
		enumCheck(s, sortedModel(p))
		enumCheck(o, sortedModel(po))
	}
}

func enumCheck(s *setz.Bits, want []uint) {
	vx.Assert(s.Len() == len(want), "Len equals the cardinality")
	var got []uint
	it := s.Iter()
	for it.Next() {
		got = append(got, it.Value())
	}
	vx.Assert(eqUints(got, want), "Iter enumerates exactly the members in ascending order")
	got = nil
	s.Range(func(x uint) bool { got = append(got, x); return true })
	vx.Assert(eqUints(got, want), "Range enumerates exactly the members in ascending order")
	got = nil
	for x := range s.All() {
		got = append(got, x)
	}
	vx.Assert(eqUints(got, want), "All enumerates exactly the members in ascending order")
	if len(want) > 1 {
		got = nil
		s.Range(func(x uint) bool { got = append(got, x); return false })
		vx.Assert(eqUints(got, want[:1]), "Range stops when the callback returns false")
		got = nil
		for x := range s.All() {
			got = append(got, x)
			if len(got) == 2 {
				break
			}
		}
		vx.Assert(eqUints(got, want[:2]), "All stops when the consumer breaks")
	}
}

// DszEnum: deprecated dsz.Bits with the same candidates: Add/Remove/Contains/Len/Iter.
func DszEnum() {
	nops := vx.Param("ops", 3)
	candidates := allCandidates[:vx.Param("cands", len(allCandidates))]
	var s dsz.Bits
	p := make([]bool, 256)
	for step := 0; step < nops; step++ {
		x := candidates[vx.Choose(len(candidates))]
		switch vx.Choose(3) {
		case 0:
			s.Add(x)
			p[x] = true
		case 1:
			s.Remove(x)
			p[x] = false
		case 2:
			s.Grow(x)
		}
		want := sortedModel(p)
		vx.Assert(s.Len() == len(want), "dsz.Bits.Len equals the cardinality")
		for _, y := range candidates {
			vx.Assert(s.Contains(y) == p[y], "dsz.Bits.Contains reports membership")
			vx.Assert(s.Contains(y+2) == p[y+2], "dsz.Bits.Contains reports membership (neighbour)")
		}
		var got []uint
		it := s.Iter()
		for it.Next() {
			got = append(got, it.Value())
		}
		vx.Assert(eqUints(got, want), "dsz.Bits.Iter enumerates exactly the members in ascending order")
	}
}

// DszSym: dsz.Bits with symbolic numbers: Len and Contains.
func DszSym() {
	limit := 64 * vx.Param("words", 3)
	nops := vx.Param("ops", 3)
	var s dsz.Bits
	m := &model{}
	for step := 0; step < nops; step++ {
		x := symNum(limit)
		if vx.Choose(2) == 0 {
			if !m.has(x) {
				m.add(x)
			}
			s.Add(x)
		} else {
			m.remove(x)
			s.Remove(x)
		}
		vx.Assert(s.Len() == m.count(), "dsz.Bits.Len equals the cardinality")
		y := symNum(limit + 64)
		vx.Assert(s.Contains(y) == m.has(y), "dsz.Bits.Contains reports membership")
	}
}

func wordHas(ws []uint64, m uint) bool {
	r := false
	for i, w := range ws {
		r = vx.Or(r, vx.And(m>>6 == uint(i), w&(1<<(m&63)) != 0))
	}
	return r
}

func popcount(ws []uint64) int {
	n := 0
	for _, w := range ws {
		n += bits.OnesCount64(w)
	}
	return n
}

// BitsStep (in-package constructor): one operation from an ARBITRARY state: backing words are fully symbolic
// 64-bit values (length field = popcount: the representation invariant), the second operand has 0..nb
// symbolic words; afterwards Contains(m) for a fresh symbolic m follows the set-theoretic specification and
// Len equals the popcount of the specified words.  One inductive step that covers histories of any length.
func BitsStep() {
	na := vx.Choose(vx.Param("na", 2) + 1)
	nb := vx.Choose(vx.Param("nb", 3) + 1)
	wa := make([]uint64, na)
	for i := range wa {
		wa[i] = vx.Uint64("wa")
	}
	wb := make([]uint64, nb)
	for i := range wb {
		wb[i] = vx.Uint64("wb")
	}
	a := setz.VerifBits(wa)
	b := setz.VerifBits(wb)
	vx.Assert(a.Len() == popcount(wa), "constructor establishes Len == popcount")
	m := vx.Uint("m")
	vx.Assume(m < 64*5)
	x := vx.Uint("x")
	vx.Assume(x < 64*4)
	inA, inB := wordHas(wa, m), wordHas(wb, m)
	lenA := popcount(wa)
	op := vx.Choose(7)
	switch op {
	case 0:
		had := wordHas(wa, x)
		got := a.Add(x)
		vx.Assert(got == !had, "Add reports whether membership changed")
		vx.Assert(a.Contains(m) == vx.Or(inA, m == x), "after Add: membership is old membership or the added number")
		vx.Assert(a.Len() == lenA+vx.IteInt(had, 0, 1), "after Add: Len grows by one iff membership changed")
	case 1:
		had := wordHas(wa, x)
		got := a.Remove(x)
		vx.Assert(got == had, "Remove reports whether membership changed")
		vx.Assert(a.Contains(m) == vx.And(inA, m != x), "after Remove: membership is old membership minus the removed number")
		vx.Assert(a.Len() == lenA-vx.IteInt(had, 1, 0), "after Remove: Len shrinks by one iff membership changed")
	case 2:
		a.Diff(b)
		vx.Assert(a.Contains(m) == vx.And(inA, !inB), "after Diff: set difference")
	case 3:
		a.Intersect(b)
		vx.Assert(a.Contains(m) == vx.And(inA, inB), "after Intersect: set intersection")
	case 4:
		a.Merge(b)
		vx.Assert(a.Contains(m) == vx.Or(inA, inB), "after Merge: set union")
	case 5:
		a.Grow(x)
		vx.Assert(a.Contains(m) == inA, "Grow never changes membership")
		vx.Assert(a.Len() == lenA, "Grow never changes Len")
	case 6:
		c := a.Clone()
		c.Add(x)
		vx.Assert(a.Contains(m) == inA, "Clone is independent of its source")
		vx.Assert(c.Contains(m) == vx.Or(inA, m == x), "the clone has the source's members")
	}
	if op >= 2 && op <= 4 {
		vx.Assert(a.Len() == popcount(setz.VerifWords(&a)), "after a bulk operation Len equals the popcount of the words")
		vx.Assert(b.Contains(m) == inB, "the other operand is untouched")
		vx.Assert(b.Len() == popcount(wb), "the other operand's Len is untouched")
	}
}

// BitsStep2: a bulk operation on arbitrary words immediately followed by Add or Remove, Len observed only
// afterwards (no observer between the two calls).
func BitsStep2() {
	na := vx.Choose(vx.Param("na", 2) + 1)
	nb := vx.Choose(vx.Param("nb", 2) + 1)
	wa := make([]uint64, na)
	for i := range wa {
		wa[i] = vx.Uint64("wa")
	}
	wb := make([]uint64, nb)
	for i := range wb {
		wb[i] = vx.Uint64("wb")
	}
	a := setz.VerifBits(wa)
	b := setz.VerifBits(wb)
	x := vx.Uint("x")
	vx.Assume(x < 64*4)
	m := vx.Uint("m")
	vx.Assume(m < 64*5)
	inA, inB := wordHas(wa, m), wordHas(wb, m)
	xA, xB := wordHas(wa, x), wordHas(wb, x)
	var mem, xmem bool // membership of m and of x after the bulk operation
	switch vx.Choose(3) {
	case 0:
		a.Diff(b)
		mem, xmem = vx.And(inA, !inB), vx.And(xA, !xB)
	case 1:
		a.Intersect(b)
		mem, xmem = vx.And(inA, inB), vx.And(xA, xB)
	case 2:
		a.Merge(b)
		mem, xmem = vx.Or(inA, inB), vx.Or(xA, xB)
	}
	// cardinality after the bulk operation, read from the words (no observer of the API is called here)
	lenBulk := popcount(append([]uint64(nil), setz.VerifWords(&a)...))
	want := lenBulk
	if vx.Choose(2) == 0 {
		got := a.Add(x)
		vx.Assert(got == !xmem, "Add after a bulk operation reports whether membership changed")
		vx.Assert(a.Contains(m) == vx.Or(mem, m == x), "bulk operation then Add: membership")
		want = lenBulk + vx.IteInt(xmem, 0, 1)
	} else {
		got := a.Remove(x)
		vx.Assert(got == xmem, "Remove after a bulk operation reports whether membership changed")
		vx.Assert(a.Contains(m) == vx.And(mem, m != x), "bulk operation then Remove: membership")
		want = lenBulk - vx.IteInt(xmem, 1, 0)
	}
	vx.AssertSig(a.Len() == want, "Len equals the cardinality after a bulk operation followed by Add/Remove with no observer in between", "len-after-bulk-then-element-op")
	vx.Assert(b.Len() == popcount(wb), "the other operand's Len is untouched")
}

var Harnesses = map[string]func(){
	"vh/c16.BitsStep2": BitsStep2,
	"vh/c16.BitsSym":   BitsSym,
	"vh/c16.BitsEnum":  BitsEnum,
	"vh/c16.DszEnum":   DszEnum,
	"vh/c16.DszSym":    DszSym,
	"vh/c16.BitsStep":  BitsStep,
}
