// Package c01: SyncRing as a linearizable bounded MPMC FIFO queue.
package c01

import (
	"sync"

	"github.com/welllog/golib/ringz"
	zctl "github.com/welllog/golib/zzshim/ctl"
	"vh/lin"
	"vh/vx"
)

func pow2ceil(x int) int {
	c := 2
	for c < x {
		c *= 2
	}
	return c
}

// run executes the concurrent part and all checks on ring r whose content is init (capacity cp).
func run(r *ringz.SyncRing[int], init []int, cp int) {
	T := vx.Param("threads", 2)
	K := vx.Param("ops", 2)
	nk := 5
	if vx.Param("waits", 0) == 1 {
		nk = 7
	}
	kinds := make([][]int, T)
	for g := 0; g < T; g++ {
		kinds[g] = make([]int, K)
		for i := 0; i < K; i++ {
			kinds[g][i] = vx.Choose(nk)
		}
	}
	recs := make([][]lin.Op, T)
	var wg sync.WaitGroup
	for g := 0; g < T; g++ {
		recs[g] = make([]lin.Op, K)
		wg.Add(1)
		go func(g int) {
			defer wg.Done()
			zctl.Enter(g + 1)
			for i := 0; i < K; i++ {
				o := &recs[g][i]
				o.G = g
				switch kinds[g][i] {
				case 0:
					o.Kind, o.Arg = lin.Push, 10*(g+1)+i
					o.Inv = vx.Clock()
					o.OK = r.Push(o.Arg)
					o.Res = vx.Clock()
				case 1:
					o.Kind = lin.Pop
					o.Inv = vx.Clock()
					o.Ret, o.OK = r.Pop()
					o.Res = vx.Clock()
				case 2:
					o.Kind = lin.Len
					o.Inv = vx.Clock()
					o.Ret = r.Len()
					o.Res = vx.Clock()
				case 3:
					o.Kind = lin.IsEmpty
					o.Inv = vx.Clock()
					if r.IsEmpty() {
						o.Ret = 1
					}
					o.Res = vx.Clock()
				case 4:
					o.Kind = lin.IsFull
					o.Inv = vx.Clock()
					if r.IsFull() {
						o.Ret = 1
					}
					o.Res = vx.Clock()
				case 5:
					o.Kind, o.Arg = lin.Push, 10*(g+1)+i
					o.Inv = vx.Clock()
					o.OK = r.PushWait(o.Arg, 0)
					o.Res = vx.Clock()
				case 6:
					o.Kind = lin.Pop
					o.Inv = vx.Clock()
					o.Ret, o.OK = r.PopWait(0)
					o.Res = vx.Clock()
				}
			}
		}(g)
	}
	wg.Wait()
	var h []lin.Op
	for g := 0; g < T; g++ {
		h = append(h, recs[g]...)
	}
	stored := len(init)
	pushes, pops, okPush, okPop := 0, 0, 0, 0
	for _, o := range h {
		switch o.Kind {
		case lin.Len:
			vx.Assert(o.Ret >= 0 && o.Ret <= cp, "Len() always lies in [0, Cap()]")
		case lin.Push:
			pushes++
			if o.OK {
				okPush++
				stored++
			}
		case lin.Pop:
			pops++
			if o.OK {
				okPop++
				stored--
			}
		}
	}
	// progress: only pushers on a ring with enough free slots (only poppers on enough elements)
	if pops == 0 && pushes > 0 && len(init)+pushes <= cp {
		vx.Assert(okPush >= 1, "when only pushers run on a ring with enough free slots at least one of them succeeds")
	}
	if pushes == 0 && pops > 0 && pops <= len(init) {
		vx.Assert(okPop >= 1, "when only poppers run on a ring with enough elements at least one of them succeeds")
	}
	// quiescence
	vx.Assert(r.Len() == stored, "Len() is exact when no operation is in flight")
	vx.Assert(r.IsEmpty() == (stored == 0), "IsEmpty() is exact when no operation is in flight")
	vx.Assert(r.IsFull() == (stored == cp), "IsFull() is exact when no operation is in flight")
	var rest []int
	for {
		v, ok := r.Pop()
		if !ok {
			break
		}
		rest = append(rest, v)
		if len(rest) > cp {
			break
		}
	}
	vx.Assert(len(rest) == stored, "every stored value can be popped after quiescence")
	vx.Assert(lin.Conservation(h, init, rest), "every value whose Push returned true is popped exactly once or remains (nothing invented, duplicated or lost)")
	t := vx.Clock()
	full := append([]lin.Op(nil), h...)
	for _, v := range rest {
		full = append(full, lin.Op{Kind: lin.Pop, OK: true, Ret: v, Inv: t, Res: t + 1})
		t += 2
	}
	vx.Assert(lin.Queue(full, init, cp), "the successful operations are linearizable to a FIFO queue of capacity Cap()")
}

// Public: capacity, rotation and fill produced through the public API (counters start at 0).
func Public() {
	zctl.Enter(0)
	req := vx.Choose(vx.Param("maxreq", 3)) + 1
	cp := pow2ceil(req)
	r := ringz.NewSync[int](req)
	rot := vx.Choose(cp)
	for i := 0; i < rot; i++ {
		r.Push(-1)
		r.Pop()
	}
	fill := vx.Choose(cp + 1)
	var init []int
	for i := 0; i < fill; i++ {
		r.Push(1000 + i)
		init = append(init, 1000+i)
	}
	run(&r, init, cp)
}

// Wrap: arbitrary representation-invariant state with a symbolic absolute position counter (all 2^32
// values, wrap-around included) built by the in-package constructor; C10 shows that every sequential step
// re-establishes this invariant, so only reachable states are used.
func Wrap() {
	zctl.Enter(0)
	req := vx.Choose(vx.Param("maxreq", 3)) + 1
	cp := pow2ceil(req)
	h0 := vx.Uint32("h0")
	if vx.Param("nearwrap", 0) == 1 {
		vx.Assume(h0 >= 0xFFFFFFFC)
	}
	fill := vx.Choose(cp + 1)
	init := make([]int, fill)
	for i := range init {
		init[i] = 1000 + i
	}
	r := ringz.VerifSyncRingAt[int](req, h0, init)
	run(r, init, cp)
}

var Harnesses = map[string]func(){
	"vh/c01.Public": Public,
	"vh/c01.Wrap":   Wrap,
}
