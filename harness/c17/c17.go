// Package c17: rune-aware string helpers (strz/strs.go).
package c17

import (
	"unicode/utf8"

	"github.com/welllog/golib/strz"
	"vh/vx"
)

// symScalars builds a valid UTF-8 string of k arbitrary Unicode scalar values and returns the runes too.
func symScalars(k int) (string, []rune) {
	var b []byte
	rs := make([]rune, k)
	for i := 0; i < k; i++ {
		r := vx.Rune("r")
		vx.Assume(vx.And(r >= 0, r <= utf8.MaxRune))
		vx.Assume(vx.Not(vx.And(r >= 0xD800, r <= 0xDFFF)))
		rs[i] = r
		b = utf8.AppendRune(b, r)
	}
	return string(b), rs
}

func noPanic(what string) {
	if r := recover(); r != nil {
		vx.Fail(what+" panics", what+"-panic")
	}
}

func eqRunes(s string, want []rune) bool { return vx.EqStr(s, string(want)) }

// SubValid: Sub(s, start, length) == string(runes[start:start+length]) (to the end for -1).
func SubValid() {
	k := vx.Param("k", 2)
	s, rs := symScalars(k)
	start := vx.Int("start")
	length := vx.Int("length")
	vx.Assume(vx.And(start >= 0, length >= -1))
	defer noPanic("Sub")
	got := strz.Sub(s, start, length)
	var want []rune
	if start < k {
		rest := rs[start:]
		if length == -1 || length >= len(rest) {
			want = rest
		} else {
			want = rest[:length]
		}
	}
	if k == 0 {
		want = nil
	}
	vx.Assert(eqRunes(got, want), "Sub returns the runes [start, start+length)")
	vx.Assert(utf8.ValidString(got), "Sub result is valid UTF-8")
	vx.Observe("sub", got)
}

// MaskValid: Mask keeps the first start and the last end runes and masks the runes in between.
func MaskValid() {
	k := vx.Param("k", 2)
	s, rs := symScalars(k)
	start := vx.Int("start")
	end := vx.Int("end")
	vx.Assume(vx.And(start >= 0, end >= 0))
	var mask string
	multi := vx.Choose(2) == 1
	m1 := vx.Rune("m1")
	vx.Assume(vx.And(m1 >= 0, vx.And(m1 <= utf8.MaxRune, vx.Not(vx.And(m1 >= 0xD800, m1 <= 0xDFFF)))))
	mask = string(m1)
	if multi {
		mask += "#"
	}
	defer noPanic("Mask")
	got := strz.Mask(s, mask, start, end)
	var want []rune
	if start >= k || end >= k || start+end >= k {
		want = rs
	} else {
		want = append(want, rs[:start]...)
		if multi {
			want = append(want, m1, '#')
		} else {
			for i := 0; i < k-start-end; i++ {
				want = append(want, m1)
			}
		}
		want = append(want, rs[k-end:]...)
	}
	vx.Assert(eqRunes(got, want), "Mask keeps exactly the first start and last end runes and masks the rest")
	vx.Assert(utf8.ValidString(got), "Mask result is valid UTF-8")
	vx.Observe("mask", got)
}

// DisplayValid: SubByDisplay returns the longest rune prefix whose display width does not exceed the limit.
func DisplayValid() {
	k := vx.Param("k", 2)
	s, rs := symScalars(k)
	limit := vx.Int("limit")
	vx.Assume(limit >= 0)
	defer noPanic("SubByDisplay")
	got := strz.SubByDisplay(s, limit)
	w, n := 0, 0
	for _, r := range rs {
		d := 2
		if r < utf8.RuneSelf {
			d = 1
		}
		if w+d > limit {
			break
		}
		w += d
		n++
	}
	vx.Assert(eqRunes(got, rs[:n]), "SubByDisplay returns the longest prefix within the display limit")
	vx.Assert(utf8.ValidString(got), "SubByDisplay result is valid UTF-8")
	vx.Observe("disp", got)
}

// RevLenRemove: Rev, Len and RemoveRunes against rune-slice definitions.
func RevLenRemove() {
	k := vx.Param("k", 2)
	s, rs := symScalars(k)
	defer noPanic("Rev/Len/RemoveRunes")
	vx.Assert(strz.Len(s) == k, "Len counts runes")
	rev := make([]rune, k)
	for i := range rs {
		rev[k-1-i] = rs[i]
	}
	got := strz.Rev(s)
	vx.Assert(eqRunes(got, rev), "Rev reverses rune order")
	vx.Assert(utf8.ValidString(got), "Rev result is valid UTF-8")
	pred := func(r rune) bool { return vx.UFBool("rm", int(r)) }
	var kept []rune
	for _, r := range rs {
		if !pred(r) {
			kept = append(kept, r)
		}
	}
	rm := strz.RemoveRunes(s, pred)
	vx.Assert(eqRunes(rm, kept), "RemoveRunes deletes exactly the selected runes")
	vx.Assert(utf8.ValidString(rm), "RemoveRunes result is valid UTF-8")
	vx.Observe("rev", got)
}

// Arbitrary: arbitrary bytes (invalid UTF-8 included) and arbitrary non-negative arguments never panic.
func Arbitrary() {
	n := vx.Param("n", 3)
	s := string(vx.Bytes(n, "s"))
	a := vx.Int("a")
	b := vx.Int("b")
	vx.Assume(vx.And(a >= 0, b >= 0))
	which := vx.Param("case", -1)
	if which < 0 {
		which = vx.Choose(7)
	}
	switch which {
	case 0:
		defer noPanic("Sub")
		strz.Sub(s, a, b)
		strz.Sub(s, a, -1)
	case 1:
		defer noPanic("Mask")
		strz.Mask(s, "*", a, b)
	case 2:
		defer noPanic("Mask")
		strz.Mask(s, "**", a, b)
	case 3:
		defer noPanic("SubByDisplay")
		strz.SubByDisplay(s, a)
	case 4:
		defer noPanic("Rev")
		strz.Rev(s)
		strz.Len(s)
	case 5:
		defer noPanic("RemoveRunes")
		strz.RemoveRunes(s, func(r rune) bool { return vx.UFBool("rm", int(r)) })
	case 6:
		defer noPanic("case conversion")
		strz.UcFirst(s)
		strz.LcFirst(s)
		strz.SnakeToCamelCase(s, vx.Bool("up"))
		strz.CamelCaseToSnake(s)
	}
}

// Snake: CamelCaseToSnake(SnakeToCamelCase(x)) == x for lower-case snake_case identifiers of n bytes.
func Snake() {
	n := vx.Param("n", 3)
	b := vx.Bytes(n, "x")
	for i, c := range b {
		letter := vx.And(c >= 'a', c <= 'z')
		if i == 0 || i == n-1 {
			vx.Assume(letter)
		} else {
			vx.Assume(vx.Or(letter, c == '_'))
			vx.Assume(vx.Not(vx.And(c == '_', b[i-1] == '_')))
		}
	}
	x := string(b)
	defer noPanic("Snake/Camel")
	cam := strz.SnakeToCamelCase(x, false)
	back := strz.CamelCaseToSnake(cam)
	vx.Assert(vx.EqStr(back, x), "CamelCaseToSnake(SnakeToCamelCase(x)) == x")
	vx.Observe("camel", cam)
}

var Harnesses = map[string]func(){
	"vh/c17.SubValid":     SubValid,
	"vh/c17.MaskValid":    MaskValid,
	"vh/c17.DisplayValid": DisplayValid,
	"vh/c17.RevLenRemove": RevLenRemove,
	"vh/c17.Arbitrary":    Arbitrary,
	"vh/c17.Snake":        Snake,
}
