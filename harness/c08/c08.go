// Package c08: AES-CBC/GCM helpers and PKCS#7 padding (cryptz/aes.go).  AES is an arbitrary keyed permutation
// (uninterpreted E_k/D_k with D_k(E_k(x)) = x), GCM Seal an uninterpreted function; the real crypto/cipher CBC
// code runs on top of the block stub.
package c08

import (
	"github.com/welllog/golib/cryptz"
	"vh/vstub"
	"vh/vx"
)

func noPanic(what string) {
	if r := recover(); r != nil {
		vx.Fail(what+" panics", what+"-panic")
	}
}

func clone(b []byte) []byte { return append([]byte(nil), b...) }

// Pad: PKCS7UnPadding(PKCS7Padding(d, b), b) == d for non-empty d and every block size 1..maxb; all invalid
// block sizes are rejected; PKCS5 = block size 8.
func Pad() {
	n := vx.Param("n", 2)
	d := vx.Bytes(n, "d")
	b := vx.Int("b")
	vx.Assume(b <= vx.Param("maxb", 20))
	defer noPanic("PKCS7 padding")
	orig := clone(d)
	p, err := cryptz.PKCS7Padding(clone(d), b)
	if n == 0 || b <= 0 {
		vx.Assert(err != nil, "PKCS7Padding rejects empty data and non-positive block sizes")
		return
	}
	vx.Assert(err == nil, "PKCS7Padding accepts non-empty data and positive block sizes")
	bb := vx.Concrete(b)
	vx.Assert(len(p)%bb == 0 && len(p) > n && len(p) <= n+bb, "padded length is the next multiple of the block size")
	ok := true
	for i := n; i < len(p); i++ {
		ok = vx.And(ok, int(p[i]) == len(p)-n)
	}
	vx.Assert(vx.And(ok, vx.EqBytes(p[:n], orig)), "padding bytes all equal the padding length and the data is kept")
	u, err := cryptz.PKCS7UnPadding(p, bb)
	vx.Assert(err == nil, "PKCS7UnPadding accepts correctly padded data")
	vx.Assert(vx.EqBytes(u, orig), "PKCS7UnPadding(PKCS7Padding(d, b), b) == d")
	if bb == 8 {
		p5, e5 := cryptz.PKCS5Padding(clone(orig))
		vx.Assert(e5 == nil && vx.EqBytes(p5, p), "PKCS5Padding is PKCS7 with block size 8")
		u5, e5 := cryptz.PKCS5UnPadding(p5)
		vx.Assert(e5 == nil && vx.EqBytes(u5, orig), "PKCS5UnPadding inverts PKCS5Padding")
	}
}

// UnpadArb: arbitrary bytes offered to PKCS7UnPadding: error iff not a correctly padded multiple of the block
// size, never a panic, never a wrong length.
func UnpadArb() {
	n := vx.Param("n", 4)
	d := vx.Bytes(n, "d")
	b := vx.Int("b")
	vx.Assume(b <= vx.Param("maxb", 6))
	defer noPanic("PKCS7UnPadding")
	orig := clone(d)
	u, err := cryptz.PKCS7UnPadding(d, b)
	if n == 0 || b <= 0 {
		vx.Assert(err != nil, "PKCS7UnPadding rejects empty data and non-positive block sizes")
		return
	}
	bb := vx.Concrete(b)
	valid := false
	want := 0
	if n%bb == 0 {
		for p := 1; p <= bb && p <= n; p++ {
			all := true
			for i := n - p; i < n; i++ {
				all = vx.And(all, int(orig[i]) == p)
			}
			if all { // forks: which padding length (if any) the data ends with
				valid = true
				want = n - p
				break
			}
		}
	}
	vx.Assert((err == nil) == valid, "PKCS7UnPadding returns an error exactly for input that is not correctly padded")
	if err == nil && valid {
		vx.Assert(vx.EqBytes(u, orig[:want]), "PKCS7UnPadding strips exactly the padding")
	}
}

func symKey(kind int) []byte {
	sizes := []int{16, 24, 32, 15, 0, 33}
	return vx.Bytes(sizes[kind], "key")
}

// refCBC: reference CBC encryption over the same block stub, written independently of the library.
func refCBC(key, iv, padded []byte) []byte {
	blk, _ := vstub.NewAES(key)
	out := make([]byte, len(padded))
	prev := iv
	for i := 0; i < len(padded); i += 16 {
		var x [16]byte
		for j := 0; j < 16; j++ {
			x[j] = padded[i+j] ^ prev[j]
		}
		blk.Encrypt(out[i:i+16], x[:])
		prev = out[i : i+16]
	}
	return out
}

// CBC: AESCBCEncrypt writes AESCBCEncryptLen bytes equal to CBC over the PKCS#7-padded plaintext; AESCBCDecrypt
// recovers exactly the plaintext; dst may share memory with the source as documented; bad keys give errors.
func CBC() {
	n := vx.Param("n", 5)
	kind := vx.Choose(vx.Param("keykinds", 6))
	key := symKey(kind)
	iv := vx.Bytes(16, "iv")
	pt := vx.Bytes(n, "pt")
	orig := clone(pt)
	defer noPanic("AES-CBC")
	encLen := cryptz.AESCBCEncryptLen(pt)
	vx.Assert(encLen == (n/16+1)*16, "AESCBCEncryptLen is the padded length")
	vx.Assert(cryptz.AESCBCEncryptLen(string(pt)) == encLen, "AESCBCEncryptLen agrees for string and []byte")
	var dst []byte
	shared := vx.Choose(2) == 1
	if shared {
		buf := make([]byte, encLen)
		copy(buf, pt)
		pt = buf[:n]
		dst = buf
		vx.Cover("dst shares memory with plaintext")
	} else {
		dst = make([]byte, encLen)
	}
	err := cryptz.AESCBCEncrypt(dst, pt, key, clone(iv))
	if kind >= 3 {
		vx.Assert(err != nil, "invalid key sizes yield an error from AESCBCEncrypt")
		_, derr := cryptz.AESCBCDecrypt(make([]byte, 16), make([]byte, 16), key, clone(iv))
		vx.Assert(derr != nil, "invalid key sizes yield an error from AESCBCDecrypt")
		return
	}
	vx.Assert(err == nil, "AESCBCEncrypt succeeds for keys of 16, 24 or 32 bytes")
	padded := clone(orig)
	for i := n; i < encLen; i++ {
		padded = append(padded, byte(encLen-n))
	}
	vx.Assert(vx.EqBytes(dst, refCBC(key, iv, padded)), "AESCBCEncrypt output equals AES-CBC over the PKCS#7-padded plaintext")
	// decrypt, in place or separate
	ct := clone(dst)
	var out []byte
	if vx.Choose(2) == 1 {
		out = ct
		vx.Cover("dst shares memory with ciphertext")
	} else {
		out = make([]byte, cryptz.AESCBCDecryptLen(ct))
	}
	m, derr := cryptz.AESCBCDecrypt(out, ct, key, clone(iv))
	vx.Assert(derr == nil, "AESCBCDecrypt accepts what AESCBCEncrypt produced")
	vx.Assert(m == n, "AESCBCDecrypt returns the plaintext length")
	if derr == nil && m == n {
		vx.Assert(vx.EqBytes(out[:m], orig), "AESCBCDecrypt recovers exactly the plaintext")
	}
}

// CBCArb: arbitrary ciphertext: illegal lengths are rejected; a last block that decrypts to an invalid padding
// is rejected (the block cipher output is arbitrary); never a panic or a wrong length.
func CBCArb() {
	n := vx.Param("n", 16)
	key := vx.Bytes(16, "key")
	iv := vx.Bytes(16, "iv")
	ct := vx.Bytes(n, "ct")
	defer noPanic("AESCBCDecrypt")
	out := make([]byte, n)
	m, err := cryptz.AESCBCDecrypt(out, ct, key, iv)
	if n < 16 || n%16 != 0 {
		vx.Assert(err != nil, "AESCBCDecrypt rejects ciphertext whose length is not a positive multiple of the block size")
		return
	}
	// the decrypted last byte decides: valid iff 1 <= p <= 16 and the last p bytes equal p
	last := out[n-1]
	pOK := vx.And(last >= 1, last <= 16)
	if err == nil {
		vx.Assert(pOK, "AESCBCDecrypt succeeds only on a valid padding length")
		vx.Assert(m == n-int(last), "AESCBCDecrypt returns the length without the padding")
		p := vx.Concrete(int(last))
		all := true
		for i := n - p; i < n; i++ {
			all = vx.And(all, int(out[i]) == p)
		}
		vx.Assert(all, "AESCBCDecrypt succeeds only when all padding bytes are correct")
		vx.Cover("arbitrary ciphertext accepted")
	} else {
		vx.Cover("arbitrary ciphertext rejected")
	}
}

// GCM: AESGCMEncrypt output = Seal(key, nonce, plaintext, aad) (all four inputs reach Seal unmodified),
// length helpers exact, decrypt recovers the plaintext, any change to ciphertext/tag/nonce/aad fails.
func GCM() {
	n := vx.Param("n", 3)
	na := vx.Param("naad", 2)
	kind := vx.Choose(vx.Param("keykinds", 4))
	key := symKey(kind)
	nonce := vx.Bytes(12, "nonce")
	aad := vx.Bytes(na, "aad")
	pt := vx.Bytes(n, "pt")
	orig := clone(pt)
	defer noPanic("AES-GCM")
	encLen := cryptz.AESGCMEncryptLen(pt)
	vx.Assert(encLen == n+16, "AESGCMEncryptLen is plaintext length + tag")
	var dst []byte
	if vx.Choose(2) == 1 {
		buf := make([]byte, encLen)
		copy(buf, pt)
		pt, dst = buf[:n], buf
		vx.Cover("dst shares memory with plaintext")
	} else {
		dst = make([]byte, encLen)
	}
	err := cryptz.AESGCMEncrypt(dst, pt, key, nonce, aad)
	if kind >= 3 {
		vx.Assert(err != nil, "invalid key sizes yield an error from AESGCMEncrypt")
		return
	}
	vx.Assert(err == nil, "AESGCMEncrypt succeeds for keys of 16, 24 or 32 bytes")
	want := vstub.SealUF(key, nonce, orig, aad)
	vx.Assert(vx.EqBytes(dst, want), "AESGCMEncrypt output equals AES-GCM Seal of exactly (key, nonce, plaintext, aad)")
	ct := clone(dst)
	vx.Assert(cryptz.AESGCMDecryptLen(ct) == n, "AESGCMDecryptLen is ciphertext length - tag")
	var out []byte
	if vx.Choose(2) == 1 {
		out = ct[:cryptz.AESGCMDecryptLen(ct)]
	} else {
		out = make([]byte, n)
	}
	derr := cryptz.AESGCMDecrypt(out, ct, key, nonce, aad)
	vx.Assert(derr == nil, "AESGCMDecrypt accepts what AESGCMEncrypt produced")
	if derr == nil {
		vx.Assert(vx.EqBytes(out[:n], orig), "AESGCMDecrypt recovers exactly the plaintext")
	}
	// tampering: one byte of ciphertext/tag, nonce or aad replaced by a different byte
	ct2, nonce2, aad2 := clone(dst), clone(nonce), clone(aad)
	delta := vx.Byte("delta")
	vx.Assume(delta != 0)
	switch vx.Choose(3) {
	case 0:
		ct2[vx.Choose(len(ct2))] ^= delta
	case 1:
		nonce2[vx.Choose(12)] ^= delta
	case 2:
		if na == 0 {
			return
		}
		aad2[vx.Choose(na)] ^= delta
	}
	terr := cryptz.AESGCMDecrypt(make([]byte, n), ct2, key, nonce2, aad2)
	vx.Assert(terr != nil, "any change to ciphertext, tag, nonce or additional data makes AESGCMDecrypt fail")
}

var Harnesses = map[string]func(){
	"vh/c08.Pad":      Pad,
	"vh/c08.UnpadArb": UnpadArb,
	"vh/c08.CBC":      CBC,
	"vh/c08.CBCArb":   CBCArb,
	"vh/c08.GCM":      GCM,
}
