// Package c19: goz.Limiter bounds concurrency, runs every task once and survives panics.
package c19

import (
	"github.com/welllog/golib/goz"
	zctl "github.com/welllog/golib/zzshim/ctl"
	atomic "github.com/welllog/golib/zzshim/satomic"
	runtime "github.com/welllog/golib/zzshim/sruntime"
	"vh/vx"
)

// The harness's own atomic operations, gates and Gosched calls go through the schedule-controller shims
// (to the engine they are the operations they wrap); with the library's WaitGroup operations gated as well,
// a schedule found by the engine is replayed natively in the recorded order.  Goroutines are created inside
// the library, so every submitted function declares its logical id (start order) first.

// Limit: limit symbolic (all values < 1 fall back to 3), m tasks that may panic; a scheduling point inside
// every task lets the engine interleave them.
func Limit() {
	zctl.Enter(0)
	nextID := 1
	limit := vx.Int("limit")
	vx.Assume(limit <= vx.Param("maxlimit", 2))
	eff := limit
	if eff < 1 {
		eff = 3 // every limit below 1 in one path
		vx.Cover("default limit")
	}
	eff = vx.Concrete(eff)
	m := vx.Param("tasks", 3)
	l := goz.NewLimiter(limit)
	handled := make([]int32, m)
	useHandler := vx.Choose(2) == 0
	if useHandler {
		l.SetPanicHandler(func(p any) {
			if i, ok := p.(int); ok && i >= 0 && i < m {
				atomic.AddInt32(&handled[i], 1)
			}
		})
	}
	panics := make([]bool, m)
	for i := range panics {
		panics[i] = vx.Choose(2) == 1
	}
	var cur, maxSeen int32
	ran := make([]int32, m)
	for i := 0; i < m; i++ {
		i := i
		id := nextID
		nextID++
		l.Go(func() {
			zctl.Enter(id)
			c := atomic.AddInt32(&cur, 1)
			for {
				mx := atomic.LoadInt32(&maxSeen)
				if c <= mx || atomic.CompareAndSwapInt32(&maxSeen, mx, c) {
					break
				}
			}
			atomic.AddInt32(&ran[i], 1)
			zctl.Gate()
			atomic.AddInt32(&cur, -1)
			if panics[i] {
				vx.Cover("task panicked")
				panic(i)
			}
		})
	}
	l.Wait()
	vx.Assert(atomic.LoadInt32(&cur) == 0, "Wait() returns only after every submitted function has finished")
	vx.Assert(int(atomic.LoadInt32(&maxSeen)) <= eff, "never more than n functions run at the same time")
	for i := 0; i < m; i++ {
		vx.Assert(atomic.LoadInt32(&ran[i]) == 1, "every submitted function is executed exactly once")
		if useHandler {
			want := int32(0)
			if panics[i] {
				want = 1
			}
			vx.Assert(atomic.LoadInt32(&handled[i]) == want, "the panic value reaches the configured handler exactly once")
		}
	}
	// after the panics, n functions can still be inside together: a leaked slot shows up as a deadlock here
	var arrived int32
	for i := 0; i < eff; i++ {
		id := nextID
		nextID++
		l.Go(func() {
			zctl.Enter(id)
			atomic.AddInt32(&arrived, 1)
			for atomic.LoadInt32(&arrived) < int32(eff) {
				runtime.Gosched()
			}
		})
	}
	l.Wait()
	vx.Assert(int(atomic.LoadInt32(&arrived)) == eff, "later submissions still obtain up to n concurrent slots")
}

var Harnesses = map[string]func(){
	"vh/c19.Limit": Limit,
}
