// Package c10: Ring / SyncRing as sequential bounded FIFOs (ringz).
package c10

import (
	"github.com/welllog/golib/ringz"
	"vh/vx"
)

func panics(f func()) (p bool) {
	defer func() {
		if recover() != nil {
			p = true
		}
	}()
	f()
	return false
}

// checkRing compares every observer of the ring with the model.
func checkRing(r *ringz.Ring[int], model []int, capacity int) {
	vx.Assert(r.Len() == len(model), "Ring.Len equals the element count")
	vx.Assert(r.IsEmpty() == (len(model) == 0), "Ring.IsEmpty agrees with the element count")
	vx.Assert(r.IsFull() == (len(model) == capacity), "Ring.IsFull agrees with the element count")
	vx.Assert(r.Cap() == capacity, "Ring.Cap is the requested capacity")
	v, ok := r.Peek()
	vx.Assert(ok == (len(model) > 0), "Ring.Peek fails iff empty")
	if len(model) > 0 {
		vx.Assert(v == model[0], "Ring.Peek returns the oldest element")
	}
}

// RingSeq: arbitrary capacity, rotation, fill and operation sequence against a FIFO slice model.
func RingSeq() {
	maxCap := vx.Param("maxcap", 4)
	nops := vx.Param("ops", 3)
	capacity := vx.Choose(maxCap) + 1
	r := ringz.New[int](capacity)
	rot := vx.Choose(capacity)
	for i := 0; i < rot; i++ {
		r.Push(-1)
		r.Pop()
	}
	var model []int
	fill := vx.Choose(capacity + 1)
	for i := 0; i < fill; i++ {
		v := vx.Int("init")
		vx.Assert(r.Push(v), "Push succeeds while fewer than Cap elements are held")
		model = append(model, v)
	}
	checkRing(&r, model, capacity)
	for step := 0; step < nops; step++ {
		switch vx.Choose(5) {
		case 0:
			v := vx.Int("v")
			ok := r.Push(v)
			vx.Assert(ok == (len(model) < capacity), "Push succeeds iff fewer than Cap elements are held")
			if ok {
				model = append(model, v)
			}
		case 1:
			v, ok := r.Pop()
			vx.Assert(ok == (len(model) > 0), "Pop fails iff empty")
			if len(model) > 0 {
				vx.Assert(v == model[0], "Pop returns the oldest element")
				model = model[1:]
			}
		case 2:
			n := vx.Int("recap")
			vx.Assume(n <= vx.Param("maxrecap", 6))
			ok := r.Recap(n)
			want := vx.And(n > 0, vx.And(n != capacity, n >= len(model)))
			vx.Assert(ok == want, "Recap succeeds exactly for positive capacities different from the current one and not below Len")
			if ok {
				capacity = n
				vx.Cover("recap ok")
			}
		case 3:
			v := vx.Int("v")
			if len(model) == capacity {
				capacity *= 2
				vx.Cover("expanded")
			}
			r.PushWithExpand(v)
			model = append(model, v)
		case 4:
			// observers only
		}
		checkRing(&r, model, capacity)
	}
	// drain
	for len(model) > 0 {
		v, ok := r.Pop()
		vx.Assert(ok, "drain: Pop succeeds while elements remain")
		vx.Assert(v == model[0], "drain: FIFO order and content preserved")
		model = model[1:]
	}
	_, ok := r.Pop()
	vx.Assert(!ok, "drain: Pop fails on the empty ring")
	vx.Observe("cap", capacity)
}

// RingInit: non-positive capacities panic (documented), positive ones give an empty ring of that capacity.
func RingInit() {
	c := vx.Int("cap")
	vx.Assume(c <= 5)
	var r ringz.Ring[int]
	p := panics(func() { r = ringz.New[int](c) })
	vx.Assert(p == (c <= 0), "Ring.New panics exactly for non-positive capacities")
	if !p {
		vx.Assert(vx.And(r.Cap() == c, vx.And(r.Len() == 0, r.IsEmpty())), "new Ring is empty with the requested capacity")
	}
}

func pow2ceil(x int) int {
	c := 2
	for c < x {
		c *= 2
	}
	return c
}

func checkSync(r *ringz.SyncRing[int], model []int, capacity int) {
	vx.Assert(r.Len() == len(model), "SyncRing.Len equals the element count")
	vx.Assert(r.IsEmpty() == (len(model) == 0), "SyncRing.IsEmpty agrees with the element count")
	vx.Assert(r.IsFull() == (len(model) == capacity), "SyncRing.IsFull agrees with the element count")
	vx.Assert(r.Cap() == capacity, "SyncRing.Cap is the smallest power of two >= max(2, requested)")
}

func syncOps(r *ringz.SyncRing[int], model []int, capacity, nops int) []int {
	for step := 0; step < nops; step++ {
		switch vx.Choose(5) {
		case 0:
			v := vx.Int("v")
			ok := r.Push(v)
			vx.Assert(ok == (len(model) < capacity), "SyncRing.Push succeeds iff fewer than Cap elements are held")
			if ok {
				model = append(model, v)
			}
		case 1:
			v, ok := r.Pop()
			vx.Assert(ok == (len(model) > 0), "SyncRing.Pop fails iff empty")
			if len(model) > 0 {
				vx.Assert(v == model[0], "SyncRing.Pop returns the oldest element")
				model = model[1:]
			}
		case 2:
			v := vx.Int("v")
			ok := r.PushWait(v, 0)
			vx.Assert(ok == (len(model) < capacity), "SyncRing.PushWait(0) succeeds iff not full")
			if ok {
				model = append(model, v)
			}
		case 3:
			v, ok := r.PopWait(0)
			vx.Assert(ok == (len(model) > 0), "SyncRing.PopWait(0) fails iff empty")
			if len(model) > 0 {
				vx.Assert(v == model[0], "SyncRing.PopWait returns the oldest element")
				model = model[1:]
			}
		case 4:
			if len(model) < capacity {
				v := vx.Int("v")
				vx.Assert(r.PushWait(v, -1), "SyncRing.PushWait(-1) pushes when there is room")
				model = append(model, v)
			} else if len(model) > 0 {
				v, ok := r.PopWait(-1)
				vx.Assert(vx.And(ok, v == model[0]), "SyncRing.PopWait(-1) pops the oldest element")
				model = model[1:]
			}
		}
		checkSync(r, model, capacity)
	}
	return model
}

func drainSync(r *ringz.SyncRing[int], model []int) {
	for len(model) > 0 {
		v, ok := r.Pop()
		vx.Assert(ok, "drain: SyncRing.Pop succeeds while elements remain")
		vx.Assert(v == model[0], "drain: SyncRing FIFO order and content preserved")
		model = model[1:]
	}
	_, ok := r.Pop()
	vx.Assert(!ok, "drain: SyncRing.Pop fails on the empty ring")
}

// SyncSeq: public API only, counters start at 0.
func SyncSeq() {
	req := vx.Choose(vx.Param("maxreq", 5)) + 1
	capacity := pow2ceil(req)
	r := ringz.NewSync[int](req)
	var model []int
	checkSync(&r, model, capacity)
	rot := vx.Choose(capacity)
	for i := 0; i < rot; i++ {
		r.Push(-1)
		r.Pop()
	}
	model = syncOps(&r, model, capacity, vx.Param("ops", 4))
	drainSync(&r, model)
}

// SyncInit: non-positive capacities panic, small positive ones round up as documented.
func SyncInit() {
	c := vx.Int("cap")
	vx.Assume(c <= 17)
	var r ringz.SyncRing[int]
	p := panics(func() { r = ringz.NewSync[int](c) })
	vx.Assert(p == (c <= 0), "NewSync panics exactly for non-positive capacities")
	if !p {
		cc := vx.Concrete(c)
		vx.Assert(r.Cap() == pow2ceil(cc), "SyncRing.Cap is the smallest power of two >= max(2, requested)")
		vx.Assert(vx.And(r.Len() == 0, vx.And(r.IsEmpty(), !r.IsFull())), "new SyncRing is empty")
	}
}

// SyncWrap (in-package state constructor): arbitrary absolute counter value h0 (all 2^32, wrap-around
// included), arbitrary fill, then arbitrary operations; also checks the representation invariant after every
// step, which makes the step inductive for histories of any length.
func SyncWrap() {
	req := vx.Choose(vx.Param("maxreq", 4)) + 1
	capacity := pow2ceil(req)
	h0 := vx.Uint32("h0")
	fill := vx.Choose(capacity + 1)
	model := make([]int, fill)
	for i := range model {
		model[i] = vx.Int("init")
	}
	r := ringz.VerifSyncRingAt[int](req, h0, model)
	checkSync(r, model, capacity)
	nops := vx.Param("ops", 2)
	pops := 0
	for step := 0; step < nops; step++ {
		before := len(model)
		model = syncOps(r, model, capacity, 1)
		if len(model) < before {
			pops++
		}
		vx.Assert(ringz.VerifSyncRingInv(r, h0+uint32(pops), len(model)), "representation invariant re-established after the step")
	}
	if h0 > 0xFFFFFFF0 {
		vx.Cover("counter near wrap")
	}
	drainSync(r, model)
}

// Roundup: roundupPowOfTwo(x) for every x that Init passes to it (non powers of two, x >= 3).
func Roundup() {
	x := vx.Uint32("x")
	vx.Assume(vx.And(x >= 3, x&(x-1) != 0))
	y := ringz.VerifRoundup(x)
	big := x > 1<<31
	if big {
		vx.AssertSig(vx.And(y >= x, y&(y-1) == 0), "SyncRing capacity for requests above 2^31 is a power of two >= the request", "requested-capacity>2^31")
		return
	}
	vx.Assert(vx.And(y >= x, vx.And(y&(y-1) == 0, y/2 < x)), "roundupPowOfTwo gives the smallest power of two >= x")
}

var Harnesses = map[string]func(){
	"vh/c10.RingSeq":  RingSeq,
	"vh/c10.RingInit": RingInit,
	"vh/c10.SyncSeq":  SyncSeq,
	"vh/c10.SyncInit": SyncInit,
	"vh/c10.SyncWrap": SyncWrap,
	"vh/c10.Roundup":  Roundup,
}
