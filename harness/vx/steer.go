package vx

import (
	"math/rand"
	"reflect"
	"unsafe"
)

type replaySource struct{}

func (replaySource) Int63() int64   { return int64(nextNamed("", true) >> 1) }
func (replaySource) Uint64() uint64 { return nextNamed("", true) }
func (replaySource) Seed(int64)     {}

var steered = map[uintptr]bool{}

func steerRand(obj any) {
	v := reflect.ValueOf(obj)
	if v.Kind() != reflect.Ptr || v.Elem().Kind() != reflect.Struct {
		return
	}
	s := v.Elem()
	want := reflect.TypeOf((*rand.Rand)(nil))
	for i := 0; i < s.NumField(); i++ {
		f := s.Field(i)
		if f.Type() != want || f.IsNil() {
			continue
		}
		p := (**rand.Rand)(unsafe.Pointer(f.UnsafeAddr()))
		key := uintptr(unsafe.Pointer(*p))
		if steered[key] {
			continue
		}
		*p = rand.New(replaySource{})
		steered[uintptr(unsafe.Pointer(*p))] = true
	}
}
