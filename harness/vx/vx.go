// Package vx is the interface between harnesses and the symbolic engine (gosym).
//
// Under gosym every function here is intercepted by name.  The bodies below are the
// *native* implementation used when a counterexample (or a witness of a completed
// path) is replayed against the real build: inputs, choices and uninterpreted-function
// values come from the replay file named by $VERIF_REPLAY.
package vx

import (
	"encoding/json"
	"fmt"
	"os"
	"runtime"
	"sync/atomic"
	"unicode/utf8"

	_ "vh/vstub"
)

var _ = utf8.RuneError

type input struct {
	Name string `json:"name"`
	W    int    `json:"w"`
	V    uint64 `json:"v"`
}

type ufEntry struct {
	Name string   `json:"name"`
	Args []uint64 `json:"args"`
	V    uint64   `json:"v"`
}

type replay struct {
	Inputs  []input          `json:"inputs"`
	Chooses []int64          `json:"chooses"`
	UF      []ufEntry        `json:"uf"`
	Params  map[string]int64 `json:"params"`
}

var (
	rp       replay
	loaded   bool
	inPos    int
	chPos    int
	Failures []string
	Obs      []string
	clock    int
)

func load() {
	if loaded {
		return
	}
	loaded = true
	p := os.Getenv("VERIF_REPLAY")
	if p == "" {
		panic("vx: VERIF_REPLAY not set (harnesses run natively only for replay)")
	}
	b, err := os.ReadFile(p)
	if err != nil {
		panic(err)
	}
	if err := json.Unmarshal(b, &rp); err != nil {
		panic(err)
	}
}

// Reset rewinds the replay cursor (used by the replay driver).
func Reset() {
	loaded = false
	inPos, chPos, clock = 0, 0, 0
	atomic.StoreInt64(&clock64, 0)
	Failures = nil
	Obs = nil
}

// engine-internal stub inputs (random words, salts, clock readings) are recorded in the same sequence as the
// harness inputs; natively they are not consumed through vx (the real library draws its own), so a request
// for a harness input skips over them, and the SteerRand source asks for them by name.
var stubNames = map[string]bool{"rand_Uint64": true, "rand_Int63": true, "rand_Uint32": true, "rand_Int31": true, "rand_n": true,
	"crand_byte": true, "crand_int": true, "time_wall": true, "time_ext": true, "unixnano": true, "time_sub": true,
	"elapsed_ms": true, "duration": true, "oob_mem": true}

func nextNamed(name string, stub bool) uint64 {
	load()
	for inPos < len(rp.Inputs) {
		v := rp.Inputs[inPos]
		inPos++
		if stubNames[v.Name] != stub {
			continue
		}
		return v.V
	}
	return 0
}

func next(w int) uint64 { return nextNamed("", false) }

func Int(name string) int       { return int(int64(next(64))) }
func Int64(name string) int64   { return int64(next(64)) }
func Int32(name string) int32   { return int32(next(32)) }
func Int16(name string) int16   { return int16(next(16)) }
func Int8(name string) int8     { return int8(next(8)) }
func Uint(name string) uint     { return uint(next(64)) }
func Uint64(name string) uint64 { return next(64) }
func Uint32(name string) uint32 { return uint32(next(32)) }
func Uint16(name string) uint16 { return uint16(next(16)) }
func Uint8(name string) uint8   { return uint8(next(8)) }
func Byte(name string) byte     { return byte(next(8)) }
func Rune(name string) rune     { return rune(int32(next(32))) }
func Bool(name string) bool     { return next(0) != 0 }

// Bytes returns n fresh symbolic bytes.
func Bytes(n int, name string) []byte {
	b := make([]byte, n)
	for i := range b {
		b[i] = byte(next(8))
	}
	return b
}

// Choose is an enumerated choice 0..n-1 (every alternative is explored).
func Choose(n int) int {
	load()
	if chPos >= len(rp.Chooses) {
		chPos++
		return 0
	}
	v := rp.Chooses[chPos]
	chPos++
	return int(v)
}

// Param is a harness parameter (bound) set by the job; def is used when absent.
func Param(name string, def int) int {
	load()
	if v, ok := rp.Params[name]; ok {
		return int(v)
	}
	return def
}

type assumeFailed struct{}

// Assume constrains the inputs.  Natively a false assumption ends the replay (the inputs
// do not belong to the path that was recorded).
func Assume(b bool) {
	if !b {
		assumeEnded = true
		runtime.Goexit() // ends the replay without a panic that harness-level recover() could mistake for a library panic
	}
}

var assumeEnded bool

func Assert(b bool, msg string) {
	if !b {
		Failures = append(Failures, msg)
	}
}

func AssertSig(b bool, msg, sig string) {
	if !b {
		Failures = append(Failures, msg)
	}
}

func Fail(msg, sig string) { Failures = append(Failures, msg) }

func Cover(label string) {}

// Done ends the path.
func Done() { assumeEnded = true; runtime.Goexit() }

// Concrete forces a value to be enumerated concretely by the engine.
func Concrete(x int) int { return x }

func And(a, b bool) bool     { return a && b }
func Or(a, b bool) bool      { return a || b }
func Implies(a, b bool) bool { return !a || b }
func Iff(a, b bool) bool     { return a == b }
func Not(a bool) bool        { return !a }

func IteInt(c bool, a, b int) int {
	if c {
		return a
	}
	return b
}
func IteU8(c bool, a, b uint8) uint8 {
	if c {
		return a
	}
	return b
}
func IteU16(c bool, a, b uint16) uint16 {
	if c {
		return a
	}
	return b
}
func IteU32(c bool, a, b uint32) uint32 {
	if c {
		return a
	}
	return b
}
func IteU64(c bool, a, b uint64) uint64 {
	if c {
		return a
	}
	return b
}
func IteRune(c bool, a, b rune) rune {
	if c {
		return a
	}
	return b
}
func IteBool(c bool, a, b bool) bool {
	if c {
		return a
	}
	return b
}

func EqBytes(a, b []byte) bool { return string(a) == string(b) }
func EqStr(a, b string) bool   { return a == b }
func EqInts(a, b []int) bool {
	if len(a) != len(b) {
		return false
	}
	for i := range a {
		if a[i] != b[i] {
			return false
		}
	}
	return true
}

func ufLookup(name string, args []uint64) uint64 {
	load()
outer:
	for _, e := range rp.UF {
		if e.Name != name || len(e.Args) != len(args) {
			continue
		}
		for i := range args {
			if e.Args[i] != args[i] {
				continue outer
			}
		}
		return e.V
	}
	return 0
}

func UFInt(name string, args ...int) int {
	a := make([]uint64, len(args))
	for i, x := range args {
		a[i] = uint64(x)
	}
	return int(int64(ufLookup(name, a)))
}

func UFBool(name string, args ...int) bool {
	a := make([]uint64, len(args))
	for i, x := range args {
		a[i] = uint64(x)
	}
	return ufLookup(name, a) != 0
}

// Clock is a logical time stamp (visible-operation counter under the engine; an atomic counter natively).
func Clock() int { return int(atomic.AddInt64(&clock64, 1)) }

var clock64 int64

// Observe appends values to the path's observable log (compared between the symbolic and the native run).
func Observe(label string, vals ...any) {
	for _, v := range vals {
		switch x := v.(type) {
		case string:
			Obs = append(Obs, fmt.Sprintf("%s.len=%d", label, len(x)))
			for i := 0; i < len(x); i++ {
				Obs = append(Obs, fmt.Sprintf("%s=%d", label, x[i]))
			}
		case []byte:
			Obs = append(Obs, fmt.Sprintf("%s.len=%d", label, len(x)))
			for i := 0; i < len(x); i++ {
				Obs = append(Obs, fmt.Sprintf("%s=%d", label, x[i]))
			}
		case bool:
			if x {
				Obs = append(Obs, label+"=1")
			} else {
				Obs = append(Obs, label+"=0")
			}
		default:
			Obs = append(Obs, fmt.Sprintf("%s=%d", label, toU64(v)))
		}
	}
}

func ObserveBytes(label string, b []byte) { Observe(label, b) }
func ObserveStr(label string, s string)   { Observe(label, s) }

func toU64(v any) uint64 {
	switch x := v.(type) {
	case int:
		return uint64(x)
	case int64:
		return uint64(x)
	case int32:
		return uint64(uint32(x))
	case int16:
		return uint64(uint16(x))
	case int8:
		return uint64(uint8(x))
	case uint:
		return uint64(x)
	case uint64:
		return x
	case uint32:
		return uint64(x)
	case uint16:
		return uint64(x)
	case uint8:
		return uint64(x)
	}
	panic(fmt.Sprintf("vx.Observe: unsupported %T", v))
}

// Last* hold the outcome of the most recent Run (a harness may end through runtime.Goexit).
var (
	LastFailures []string
	LastObs      []string
	LastPanic    any
	LastAssume   bool
)

// Run executes a harness natively; the outcome is left in the Last* variables.  Call it on a goroutine of its
// own and wait for that goroutine to end.
func Run(h func()) {
	Reset()
	assumeEnded = false
	LastFailures, LastObs, LastPanic, LastAssume = nil, nil, nil, false
	defer func() {
		LastFailures, LastObs, LastAssume = Failures, Obs, assumeEnded
		if x := recover(); x != nil {
			if _, ok := x.(assumeFailed); ok {
				LastAssume = true
				return
			}
			LastPanic = x
		}
	}()
	h()
}

// SteerRand makes the library object's private *math/rand.Rand field (found by type, not by name) draw its
// words from the replay file, so that internal random choices (skip-list tower heights) follow the
// counterexample.  No-op under the engine, where math/rand is a symbolic stub.
func SteerRand(obj any) { steerRand(obj) }

// Gate is a scheduling point under the engine (other goroutines may run here); natively it yields.
func Gate() { runtime.Gosched() }
