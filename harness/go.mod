module vh

go 1.23

require github.com/welllog/golib v0.0.0

replace github.com/welllog/golib => /repo
