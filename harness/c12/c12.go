// Package c12: SafeKV is data-race free and every operation is atomic.
package c12

import (
	"sort"
	"sync"

	"github.com/welllog/golib/mapz"
	zctl "github.com/welllog/golib/zzshim/ctl"
	"vh/lin"
	"vh/vx"
)

const (
	opGet = iota
	opSet
	opSetNx
	opSetX
	opDelete
	opHas
	opLen
	opKeys
	opValues
	opRange
	opAll
	opGetWithMap
	opMap
	opClear
	nOps
)

var reduced = []int{opSetNx, opSetX, opDelete, opKeys, opClear}

type rec struct {
	kind, key, val int
	ok             bool
	ret            int
	list           []int // keys or values observed (sorted)
	list2          []int
	inv, res       int
}

func sorted(s []int) []int { s = append([]int(nil), s...); sort.Ints(s); return s }

func eq(a, b []int) bool {
	if len(a) != len(b) {
		return false
	}
	for i := range a {
		if a[i] != b[i] {
			return false
		}
	}
	return true
}

func keysOf(s map[int]int) []int {
	var k []int
	for x := range s {
		k = append(k, x)
	}
	sort.Ints(k)
	return k
}

func valsOf(s map[int]int) []int {
	var v []int
	for _, x := range s {
		v = append(v, x)
	}
	sort.Ints(v)
	return v
}

// apply is the sequential specification: a plain map.
func (r *rec) apply(s map[int]int) (map[int]int, bool) {
	cur, has := s[r.key]
	switch r.kind {
	case opGet:
		return s, r.ok == has && (!has || r.ret == cur)
	case opSet:
		n := lin.CloneMap(s)
		n[r.key] = r.val
		return n, true
	case opSetNx:
		if r.ok != !has {
			return nil, false
		}
		n := lin.CloneMap(s)
		if !has {
			n[r.key] = r.val
		}
		return n, true
	case opSetX:
		if r.ok != has {
			return nil, false
		}
		n := lin.CloneMap(s)
		if has {
			n[r.key] = r.val
		}
		return n, true
	case opDelete:
		n := lin.CloneMap(s)
		delete(n, r.key)
		return n, true
	case opHas:
		return s, r.ok == has
	case opLen:
		return s, r.ret == len(s)
	case opKeys:
		return s, eq(r.list, keysOf(s))
	case opValues:
		return s, eq(r.list, valsOf(s))
	case opRange, opAll:
		return s, eq(r.list, keysOf(s)) && eq(r.list2, valsOf(s))
	case opGetWithMap:
		// asked for keys 1 and 2 with placeholder -1: present keys are overwritten, absent ones keep -1
		want := []int{-1, -1}
		if v, ok := s[1]; ok {
			want[0] = v
		}
		if v, ok := s[2]; ok {
			want[1] = v
		}
		return s, eq(r.list, want)
	case opMap:
		// Map(fn) runs fn under the write lock: fn read the size and set key := val
		if r.ret != len(s) {
			return nil, false
		}
		n := lin.CloneMap(s)
		n[r.key] = r.val
		return n, true
	case opClear:
		return map[int]int{}, true
	}
	return nil, false
}

// Conc: T goroutines x K arbitrary SafeKV methods on keys {1,2}.
func Conc() {
	zctl.Enter(0)
	T := vx.Param("threads", 2)
	K := vx.Param("ops", 1)
	kv := mapz.NewSafeKV[int, int](0)
	init := map[int]int{}
	switch vx.Choose(2 + vx.Param("fullinit", 0)) {
	case 1:
		kv.Set(1, 100)
		init[1] = 100
	case 2:
		// both keys bound: a two-key snapshot (GetWithMap, Keys, Range ...) against Clear/Delete is only
		// distinguishable from a per-key read when both keys can change in one step
		kv.Set(1, 100)
		kv.Set(2, 200)
		init[1], init[2] = 100, 200
	}
	set := make([]int, 0, nOps)
	if vx.Param("opset", 0) == 1 {
		set = reduced
	} else {
		for i := 0; i < nOps; i++ {
			set = append(set, i)
		}
	}
	recs := make([][]rec, T)
	for g := 0; g < T; g++ {
		recs[g] = make([]rec, K)
		for i := 0; i < K; i++ {
			r := &recs[g][i]
			r.kind = set[vx.Choose(len(set))]
			r.key = 1
			switch r.kind {
			case opGet, opSet, opSetNx, opSetX, opDelete, opHas, opMap:
				r.key = 1 + vx.Choose(2)
			}
			r.val = 10*(g+1) + i
		}
	}
	var wg sync.WaitGroup
	for g := 0; g < T; g++ {
		wg.Add(1)
		go func(g int) {
			defer wg.Done()
			zctl.Enter(g + 1)
			for i := 0; i < K; i++ {
				r := &recs[g][i]
				r.inv = vx.Clock()
				switch r.kind {
				case opGet:
					r.ret, r.ok = kv.Get(r.key)
				case opSet:
					kv.Set(r.key, r.val)
				case opSetNx:
					r.ok = kv.SetNx(r.key, r.val)
				case opSetX:
					r.ok = kv.SetX(r.key, r.val)
				case opDelete:
					kv.Delete(r.key)
				case opHas:
					r.ok = kv.Has(r.key)
				case opLen:
					r.ret = kv.Len()
				case opKeys:
					r.list = sorted(kv.Keys())
				case opValues:
					r.list = sorted(kv.Values())
				case opRange:
					kv.Range(func(k, v int) bool { r.list = append(r.list, k); r.list2 = append(r.list2, v); return true })
					r.list, r.list2 = sorted(r.list), sorted(r.list2)
				case opAll:
					for k, v := range kv.All() {
						r.list = append(r.list, k)
						r.list2 = append(r.list2, v)
					}
					r.list, r.list2 = sorted(r.list), sorted(r.list2)
				case opGetWithMap:
					m := map[int]int{1: -1, 2: -1}
					kv.GetWithMap(m)
					r.list = []int{m[1], m[2]}
				case opMap:
					kv.Map(func(m mapz.KV[int, int]) { r.ret = len(m); m[r.key] = r.val })
				case opClear:
					kv.Clear()
				}
				r.res = vx.Clock()
			}
		}(g)
	}
	wg.Wait()
	var h []lin.GOp
	for g := 0; g < T; g++ {
		for i := range recs[g] {
			r := &recs[g][i]
			h = append(h, lin.GOp{Inv: r.inv, Res: r.res, Apply: r.apply})
		}
	}
	// final observation (sequential) closes the history
	t := vx.Clock()
	fin := &rec{kind: opRange, inv: t, res: t + 1}
	kv.Range(func(k, v int) bool { fin.list = append(fin.list, k); fin.list2 = append(fin.list2, v); return true })
	fin.list, fin.list2 = sorted(fin.list), sorted(fin.list2)
	h = append(h, lin.GOp{Inv: fin.inv, Res: fin.res, Apply: fin.apply})
	vx.AssertSig(lin.Generic(h, init), "every SafeKV call takes effect atomically: the history is linearizable to a plain map (snapshots consistent at one instant)", "not-linearizable")
}

var Harnesses = map[string]func(){
	"vh/c12.Conc": Conc,
}
