// Package c02: SkipList and SkipListWithCmp as ordered maps.
package c02

import (
	"github.com/welllog/golib/listz"
	"vh/vx"
)

// omap is the common surface of the two skip lists (K = V = int).
type omap interface {
	Set(k, v int)
	SetNx(k, v int) bool
	SetX(k, v int) bool
	Get(k int) (int, bool)
	GetNodeVal(k int) (int, int, bool)
	Remove(k int) (int, bool)
	Clear()
	Len() int
	Keys() []int
	Values() []int
	HeadKey() (int, bool)
	Range(f func(k, v int) bool)
	All(f func(k, v int) bool)
	RangeWithStart(s int, f func(k, v int) bool)
	RangeWithRange(s, e int, f func(k, v int) bool)
	Steer()
}

type plain struct{ s *listz.SkipList[int, int] }

func (p plain) Set(k, v int)                                   { p.s.Set(k, v) }
func (p plain) SetNx(k, v int) bool                            { return p.s.SetNx(k, v) }
func (p plain) SetX(k, v int) bool                             { return p.s.SetX(k, v) }
func (p plain) Get(k int) (int, bool)                          { return p.s.Get(k) }
func (p plain) Remove(k int) (int, bool)                       { return p.s.Remove(k) }
func (p plain) Clear()                                         { p.s.Clear() }
func (p plain) Len() int                                       { return p.s.Len() }
func (p plain) Keys() []int                                    { return p.s.Keys() }
func (p plain) Values() []int                                  { return p.s.Values() }
func (p plain) Range(f func(k, v int) bool)                    { p.s.Range(f) }
func (p plain) RangeWithStart(s int, f func(k, v int) bool)    { p.s.RangeWithStart(s, f) }
func (p plain) RangeWithRange(s, e int, f func(k, v int) bool) { p.s.RangeWithRange(s, e, f) }
func (p plain) Steer()                                         { vx.SteerRand(p.s) }
func (p plain) All(f func(k, v int) bool) {
	for k, v := range p.s.All() {
		if !f(k, v) {
			break
		}
	}
}
func (p plain) GetNodeVal(k int) (int, int, bool) {
	n := p.s.GetNode(k)
	if n == nil {
		return 0, 0, false
	}
	return n.Key(), n.Value(), true
}
func (p plain) HeadKey() (int, bool) {
	n := p.s.Head()
	if n == nil {
		return 0, false
	}
	return n.Key(), true
}

type withCmp struct {
	s *listz.SkipListWithCmp[int, int]
}

func (p withCmp) Set(k, v int)                                   { p.s.Set(k, v) }
func (p withCmp) SetNx(k, v int) bool                            { return p.s.SetNx(k, v) }
func (p withCmp) SetX(k, v int) bool                             { return p.s.SetX(k, v) }
func (p withCmp) Get(k int) (int, bool)                          { return p.s.Get(k) }
func (p withCmp) Remove(k int) (int, bool)                       { return p.s.Remove(k) }
func (p withCmp) Clear()                                         { p.s.Clear() }
func (p withCmp) Len() int                                       { return p.s.Len() }
func (p withCmp) Keys() []int                                    { return p.s.Keys() }
func (p withCmp) Values() []int                                  { return p.s.Values() }
func (p withCmp) Range(f func(k, v int) bool)                    { p.s.Range(f) }
func (p withCmp) RangeWithStart(s int, f func(k, v int) bool)    { p.s.RangeWithStart(s, f) }
func (p withCmp) RangeWithRange(s, e int, f func(k, v int) bool) { p.s.RangeWithRange(s, e, f) }
func (p withCmp) Steer()                                         { vx.SteerRand(p.s) }
func (p withCmp) All(f func(k, v int) bool) {
	for k, v := range p.s.All() {
		if !f(k, v) {
			break
		}
	}
}
func (p withCmp) GetNodeVal(k int) (int, int, bool) {
	n := p.s.GetNode(k)
	if n == nil {
		return 0, 0, false
	}
	return n.Key(), n.Value(), true
}
func (p withCmp) HeadKey() (int, bool) {
	n := p.s.Head()
	if n == nil {
		return 0, false
	}
	return n.Key(), true
}

// model: association list, entirely branch-free (keys, values and alive flags are symbolic)
type model struct {
	k, v  []int
	alive []bool
	lt    func(a, b int) bool // strict total order on keys
}

func (m *model) has(x int) bool {
	r := false
	for i := range m.k {
		r = vx.Or(r, vx.And(m.alive[i], m.k[i] == x))
	}
	return r
}

func (m *model) val(x int) int {
	r := 0
	for i := range m.k {
		r = vx.IteInt(vx.And(m.alive[i], m.k[i] == x), m.v[i], r)
	}
	return r
}

func (m *model) count(pred func(k int) bool) int {
	c := 0
	for i := range m.k {
		c += vx.IteInt(vx.And(m.alive[i], pred(m.k[i])), 1, 0)
	}
	return c
}

func (m *model) size() int { return m.count(func(int) bool { return true }) }

// put: insert (create=true) and/or update (update=true)
func (m *model) put(x, val int, create, update bool) {
	had := m.has(x)
	if update {
		for i := range m.k {
			m.v[i] = vx.IteInt(vx.And(m.alive[i], m.k[i] == x), val, m.v[i])
		}
	}
	if create {
		m.k = append(m.k, x)
		m.v = append(m.v, val)
		m.alive = append(m.alive, !had)
	}
}

func (m *model) remove(x int) {
	for i := range m.k {
		m.alive[i] = vx.And(m.alive[i], m.k[i] != x)
	}
}

func (m *model) clear() {
	for i := range m.alive {
		m.alive[i] = false
	}
}

// checkEnum: ks (with vs) must be the `want` smallest eligible keys, ascending, with the model's values.
func (m *model) checkEnum(what string, ks, vs []int, eligible func(k int) bool, stoppedEarly bool) {
	asc := true
	for i := 0; i+1 < len(ks); i++ {
		asc = vx.And(asc, m.lt(ks[i], ks[i+1]))
	}
	vx.Assert(asc, what+": keys are enumerated in strictly ascending order")
	ok := true
	for i, k := range ks {
		ok = vx.And(ok, vx.And(m.has(k), eligible(k)))
		if vs != nil {
			ok = vx.And(ok, vs[i] == m.val(k))
		}
	}
	vx.Assert(ok, what+": every enumerated binding is a current binding inside the requested range")
	total := m.count(eligible)
	if !stoppedEarly {
		vx.Assert(len(ks) == total, what+": every binding in the range is enumerated exactly once")
	} else if len(ks) > 0 {
		last := ks[len(ks)-1]
		skipped := m.count(func(k int) bool { return vx.And(eligible(k), m.lt(k, last)) })
		vx.Assert(skipped == len(ks)-1, what+": no binding is skipped before the stop")
		vx.Assert(len(ks) <= total, what+": not more bindings than exist")
	}
}

type collector struct {
	ks, vs []int
	stop   int // return false at the stop-th call (0 = never)
}

func (c *collector) f(k, v int) bool {
	c.ks = append(c.ks, k)
	c.vs = append(c.vs, v)
	return c.stop == 0 || len(c.ks) < c.stop
}

func observe(l omap, m *model) {
	all := func(int) bool { return true }
	vx.Assert(l.Len() == m.size(), "Len reports the number of bindings")
	ks, vs := l.Keys(), l.Values()
	vx.Assert(len(ks) == len(vs), "Keys and Values have the same length")
	if len(ks) == len(vs) {
		m.checkEnum("Keys/Values", ks, vs, all, false)
	}
	hk, hok := l.HeadKey()
	vx.Assert(hok == (m.size() > 0), "Head is nil iff the map is empty")
	if hok {
		vx.Assert(vx.And(m.has(hk), m.count(func(k int) bool { return m.lt(k, hk) }) == 0), "Head is the smallest binding")
	}
	q := vx.Int("q")
	gv, gok := l.Get(q)
	vx.Assert(gok == m.has(q), "Get reports whether the key is bound")
	if gok {
		vx.Assert(gv == m.val(q), "Get returns the bound value")
	}
	nk, nv, nok := l.GetNodeVal(q)
	vx.Assert(nok == m.has(q), "GetNode reports whether the key is bound")
	if nok {
		vx.Assert(vx.And(nk == q, nv == m.val(q)), "GetNode returns the binding")
	}
	stop := vx.Choose(3)
	c := &collector{stop: stop}
	l.Range(c.f)
	m.checkEnum("Range", c.ks, c.vs, all, stop != 0 && len(c.ks) == stop)
	if stop != 0 {
		vx.Assert(len(c.ks) <= stop, "Range stops as soon as the callback returns false")
	}
	c = &collector{stop: stop}
	l.All(c.f)
	m.checkEnum("All", c.ks, c.vs, all, stop != 0 && len(c.ks) == stop)
	s := vx.Int("s")
	c = &collector{stop: stop}
	l.RangeWithStart(s, c.f)
	m.checkEnum("RangeWithStart", c.ks, c.vs, func(k int) bool { return !m.lt(k, s) }, stop != 0 && len(c.ks) == stop)
	if stop != 0 {
		vx.Assert(len(c.ks) <= stop, "RangeWithStart stops as soon as the callback returns false")
	}
	e := vx.Int("e")
	c = &collector{stop: stop}
	l.RangeWithRange(s, e, c.f)
	m.checkEnum("RangeWithRange", c.ks, c.vs, func(k int) bool { return vx.And(!m.lt(k, s), m.lt(k, e)) }, stop != 0 && len(c.ks) == stop)
}

func ops(l omap, m *model, n int, withClear bool) {
	for step := 0; step < n; step++ {
		k, v := vx.Int("k"), vx.Int("v")
		nop := 5
		if withClear {
			nop = 6
		}
		switch vx.Choose(nop) {
		case 0:
			l.Set(k, v)
			m.put(k, v, true, true)
		case 1:
			had := m.has(k)
			vx.Assert(l.SetNx(k, v) == !had, "SetNx returns whether the key was absent")
			m.put(k, v, true, false)
		case 2:
			had := m.has(k)
			vx.Assert(l.SetX(k, v) == had, "SetX returns whether the key was present")
			m.put(k, v, false, true)
		case 3:
			had, old := m.has(k), m.val(k)
			rv, rok := l.Remove(k)
			vx.Assert(rok == had, "Remove returns whether the key was removed")
			if rok {
				vx.Assert(rv == old, "Remove returns the removed value")
			}
			m.remove(k)
		case 4:
			// read only
		case 5:
			l.Clear()
			m.clear()
			vx.Cover("cleared")
		}
		l.Steer()
	}
}

func natural(a, b int) bool { return a < b }

// fixedOps applies n operations of one kind (0 Set, 3 Remove) with fresh symbolic keys.
func fixedOps(l omap, m *model, n, kind int) {
	for i := 0; i < n; i++ {
		k, v := vx.Int("k"), vx.Int("v")
		if kind == 0 {
			l.Set(k, v)
			m.put(k, v, true, true)
		} else {
			had, old := m.has(k), m.val(k)
			rv, rok := l.Remove(k)
			vx.Assert(rok == had, "Remove returns whether the key was removed")
			if rok {
				vx.Assert(rv == old, "Remove returns the removed value")
			}
			m.remove(k)
		}
		l.Steer()
	}
}

// GrowShrink: a inserts (towers grow the top level), b removals (the level shrinks), c inserts (the level
// grows again over whatever the removals left behind), then the full observation.
func GrowShrink() {
	var l omap
	var m *model
	if vx.Param("cmp", 0) == 1 {
		mask := vx.Int("mask")
		lt := func(a, b int) bool { return (a ^ mask) < (b ^ mask) }
		l = withCmp{listz.NewSkipListWithCmp[int, int](func(a, b int) int {
			return vx.IteInt(a == b, 0, vx.IteInt(lt(a, b), -1, 1))
		})}
		m = &model{lt: lt}
	} else {
		l = plain{listz.NewSkipList[int, int]()}
		m = &model{lt: natural}
	}
	l.Steer()
	fixedOps(l, m, vx.Param("a", 2), 0)
	if vx.Param("clearmid", 0) == 1 {
		// Clear in the middle: whatever Clear leaves behind in the upper levels meets the regrowing towers
		l.Clear()
		m.clear()
		l.Steer()
		vx.Assert(l.Len() == 0, "Clear empties the list")
	} else {
		fixedOps(l, m, vx.Param("b", 2), 3)
	}
	fixedOps(l, m, vx.Param("c", 1), 0)
	// light observation (the full one multiplies the paths by its own forks)
	all := func(int) bool { return true }
	vx.Assert(l.Len() == m.size(), "Len reports the number of bindings")
	ks, vs := l.Keys(), l.Values()
	if len(ks) == len(vs) {
		m.checkEnum("Keys/Values", ks, vs, all, false)
	}
	q := vx.Int("q")
	gv, gok := l.Get(q)
	vx.Assert(gok == m.has(q), "Get reports whether the key is bound")
	if gok {
		vx.Assert(gv == m.val(q), "Get returns the bound value")
	}
}

// Plain: SkipList[int,int] built by NewSkipList.
func Plain() {
	l := plain{listz.NewSkipList[int, int]()}
	l.Steer()
	m := &model{lt: natural}
	ops(l, m, vx.Param("ops", 3), vx.Param("clear", 0) == 1)
	observe(l, m)
}

// Zero: a zero-value SkipList behaves as an empty map for every method, before and after Clear.
func Zero() {
	var s listz.SkipList[int, int]
	l := plain{&s}
	m := &model{lt: natural}
	defer func() {
		if r := recover(); r != nil {
			vx.Fail("zero-value SkipList panics", "zero-value-panic")
		}
	}()
	if vx.Choose(2) == 1 {
		l.Clear()
		vx.Cover("zero cleared")
	}
	ops(l, m, vx.Param("ops", 1), true)
	observe(l, m)
}

// Cmp: SkipListWithCmp under a family of total orders: keys are compared after xor with an arbitrary mask
// and in either direction.
func Cmp() {
	mask := vx.Int("mask")
	rev := vx.Bool("rev")
	lt := func(a, b int) bool { return vx.IteBool(rev, (b^mask) < (a^mask), (a^mask) < (b^mask)) }
	cmp := func(a, b int) int {
		return vx.IteInt(a == b, 0, vx.IteInt(lt(a, b), -1, 1))
	}
	l := withCmp{listz.NewSkipListWithCmp[int, int](cmp)}
	l.Steer()
	m := &model{lt: lt}
	ops(l, m, vx.Param("ops", 3), vx.Param("clear", 0) == 1)
	observe(l, m)
}

var Harnesses = map[string]func(){
	"vh/c02.Plain":      Plain,
	"vh/c02.Zero":       Zero,
	"vh/c02.Cmp":        Cmp,
	"vh/c02.GrowShrink": GrowShrink,
}
