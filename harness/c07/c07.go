// Package c07: backslash escape codecs (strz/enc.go).
package c07

import (
	"unicode/utf8"

	"github.com/welllog/golib/strz"
	"vh/vx"
)

func isUpperHex(b byte) bool {
	return vx.Or(vx.And(b >= '0', b <= '9'), vx.And(b >= 'A', b <= 'F'))
}

func isOct(b byte) bool { return vx.And(b >= '0', b <= '7') }

// OctRoundTrip: OctalParse(OctalFormat(s)) == s for every byte string of length n; shape \ooo.
func OctRoundTrip() {
	n := vx.Param("n", 2)
	s := vx.Bytes(n, "s")
	orig := append([]byte(nil), s...)
	f := strz.OctalFormat(s)
	vx.Assert(len(f) == 4*n, "OctalFormat length is 4 per byte")
	for i := 0; i < n; i++ {
		vx.Assert(f[4*i] == '\\', "octal escape starts with backslash")
		vx.Assert(vx.And(isOct(f[4*i+1]), vx.And(isOct(f[4*i+2]), isOct(f[4*i+3]))), "octal escape has three octal digits")
	}
	dst := make([]byte, len(f))
	m := strz.OctalParse(dst, f)
	vx.Assert(m == n, "OctalParse returns the original length")
	vx.Assert(vx.EqBytes(dst[:m], orig), "OctalParse(OctalFormat(s)) == s")
	vx.Assert(vx.EqBytes(s, orig), "OctalFormat does not modify its input")
	vx.Assert(vx.EqStr(strz.OctalParseToString(strz.OctalFormatToString(string(orig))), string(orig)), "OctalParseToString(OctalFormatToString(s)) == s")
	vx.Observe("fmt", f)
}

// HexRoundTrip: HexParse(HexFormat(s)) == s for every byte string of length n; shape \xXX upper case.
func HexRoundTrip() {
	n := vx.Param("n", 2)
	s := vx.Bytes(n, "s")
	orig := append([]byte(nil), s...)
	f := strz.HexFormat(s)
	vx.Assert(len(f) == 4*n, "HexFormat length is 4 per byte")
	for i := 0; i < n; i++ {
		vx.Assert(vx.And(f[4*i] == '\\', f[4*i+1] == 'x'), "hex escape starts with \\x")
		vx.Assert(vx.And(isUpperHex(f[4*i+2]), isUpperHex(f[4*i+3])), "hex escape has two upper-case hex digits")
	}
	dst := make([]byte, len(f))
	m := strz.HexParse(dst, f)
	vx.Assert(m == n, "HexParse returns the original length")
	vx.Assert(vx.EqBytes(dst[:m], orig), "HexParse(HexFormat(s)) == s")
	vx.Assert(vx.EqBytes(s, orig), "HexFormat does not modify its input")
	vx.Assert(vx.EqStr(strz.HexParseToString(strz.HexFormatToString(string(orig))), string(orig)), "HexParseToString(HexFormatToString(s)) == s")
	vx.Observe("fmt", f)
}

// symScalars builds a valid UTF-8 string of k arbitrary Unicode scalar values.
func symScalars(k int) (string, int) {
	var b []byte
	over := 0
	for i := 0; i < k; i++ {
		r := vx.Rune("r")
		vx.Assume(vx.And(r >= 0, r <= utf8.MaxRune))
		vx.Assume(vx.Not(vx.And(r >= 0xD800, r <= 0xDFFF)))
		if r > 0xFFFF {
			over++
		}
		b = utf8.AppendRune(b, r)
	}
	return string(b), over
}

// UniRoundTrip: UnicodeParse(UnicodeFormat(s)) == s for s made of k arbitrary scalar values; shape \UXXXXXXXX.
func UniRoundTrip() {
	k := vx.Param("k", 2)
	s, _ := symScalars(k)
	f := strz.UnicodeFormat(s)
	vx.Assert(len(f) == 10*k, "UnicodeFormat length is 10 per rune")
	for i := 0; i < k; i++ {
		vx.Assert(vx.And(f[10*i] == '\\', f[10*i+1] == 'U'), "unicode escape starts with \\U")
		ok := true
		for j := 2; j < 10; j++ {
			ok = vx.And(ok, isUpperHex(f[10*i+j]))
		}
		vx.Assert(ok, "unicode escape has eight upper-case hex digits")
	}
	dst := make([]byte, len(f))
	m := strz.UnicodeParse(dst, f)
	vx.Assert(vx.EqStr(string(dst[:m]), s), "UnicodeParse(UnicodeFormat(s)) == s")
	vx.Assert(vx.EqStr(strz.UnicodeParseToString(strz.UnicodeFormatToString(s)), s), "UnicodeParseToString(UnicodeFormatToString(s)) == s")
	vx.Observe("fmt", f)
}

// U16RoundTrip: Utf16Parse(Utf16Format(s)) == s; shape \uXXXX with surrogate pairs above U+FFFF.
func U16RoundTrip() {
	k := vx.Param("k", 2)
	s, over := symScalars(k)
	f := strz.Utf16Format(s)
	vx.Assert(len(f) == 6*(k+over), "Utf16Format length is 6 per UTF-16 code unit (pairs above U+FFFF)")
	for i := 0; i < len(f)/6; i++ {
		vx.Assert(vx.And(f[6*i] == '\\', f[6*i+1] == 'u'), "utf16 escape starts with \\u")
		ok := true
		for j := 2; j < 6; j++ {
			ok = vx.And(ok, isUpperHex(f[6*i+j]))
		}
		vx.Assert(ok, "utf16 escape has four upper-case hex digits")
	}
	dst := make([]byte, len(f))
	m := strz.Utf16Parse(dst, f)
	vx.Assert(vx.EqStr(string(dst[:m]), s), "Utf16Parse(Utf16Format(s)) == s")
	vx.Assert(vx.EqStr(strz.Utf16ParseToString(strz.Utf16FormatToString(s)), s), "Utf16ParseToString(Utf16FormatToString(s)) == s")
	vx.Observe("fmt", f)
}

// UniInvalid: for arbitrary bytes, each invalid byte is encoded as U+FFFD: Parse(Format(s)) == string([]rune(s)).
func UniInvalid() {
	n := vx.Param("n", 2)
	s := string(vx.Bytes(n, "s"))
	want := string([]rune(s))
	f := strz.UnicodeFormat(s)
	dst := make([]byte, len(f))
	m := strz.UnicodeParse(dst, f)
	vx.Assert(vx.EqStr(string(dst[:m]), want), "UnicodeParse(UnicodeFormat(s)) == s with invalid bytes as U+FFFD")
	f16 := strz.Utf16Format(s)
	dst16 := make([]byte, len(f16))
	m16 := strz.Utf16Parse(dst16, f16)
	vx.Assert(vx.EqStr(string(dst16[:m16]), want), "Utf16Parse(Utf16Format(s)) == s with invalid bytes as U+FFFD")
	vx.Observe("fmt", f, f16)
}

func noBackslash(b []byte) bool {
	ok := true
	for _, c := range b {
		ok = vx.And(ok, c != '\\')
	}
	return ok
}

// parseArb: arbitrary input of n bytes: no panic, output at most n bytes (also when dst has room for more),
// same result into an exact-size dst, input without backslash unchanged.
func parseArb(which int) {
	n := vx.Param("n", 4)
	src := vx.Bytes(n, "src")
	orig := append([]byte(nil), src...)
	parse := [](func(dst, src []byte) int){strz.OctalParse, strz.HexParse, strz.UnicodeParse, strz.Utf16Parse}[which]
	toString := [](func(string) string){strz.OctalParseToString[string], strz.HexParseToString[string], strz.UnicodeParseToString[string], strz.Utf16ParseToString[string]}[which]
	dst := make([]byte, n+vx.Param("room", 8))
	m := parse(dst, src)
	vx.AssertSig(vx.And(m >= 0, m <= n), "Parse produces at most len(input) bytes", "parse-output-length")
	vx.Assert(vx.EqBytes(src, orig), "Parse does not modify its input")
	if m >= 0 && m <= n {
		exact := make([]byte, n)
		m2 := parse(exact, src)
		vx.Assert(m2 == m && vx.EqBytes(exact[:m], dst[:m]), "Parse into a destination of exactly len(input) bytes gives the same result as into a larger one")
		ts := toString(string(orig))
		vx.Assert(vx.EqStr(ts, string(dst[:m])), "ParseToString agrees with Parse")
		vx.Assert(vx.Implies(noBackslash(orig), vx.EqBytes(dst[:m], orig)), "input without backslash is returned unchanged")
		vx.Observe("out", dst[:m])
	}
}

func OctArb() { parseArb(0) }
func HexArb() { parseArb(1) }
func UniArb() { parseArb(2) }
func U16Arb() { parseArb(3) }

func hexDigit(v byte, upper bool) byte {
	return vx.IteU8(v < 10, '0'+v, vx.IteU8(upper, 'A'+v-10, 'a'+v-10))
}

func symText(n int, name string) []byte {
	b := vx.Bytes(n, name)
	vx.Assume(noBackslash(b))
	return b
}

func cat(parts ...[]byte) []byte {
	var out []byte
	for _, p := range parts {
		out = append(out, p...)
	}
	return out
}

// OctEmbed: pre ++ \ooo ++ post decodes to pre ++ byte ++ post for every value 0..255.
func OctEmbed() {
	pre := symText(vx.Param("np", 1), "pre")
	post := symText(vx.Param("nq", 1), "post")
	v := vx.Byte("v")
	esc := []byte{'\\', '0' + v>>6, '0' + (v>>3)&7, '0' + v&7}
	in := cat(pre, esc, post)
	want := cat(pre, []byte{v}, post)
	dst := make([]byte, len(in))
	m := strz.OctalParse(dst, in)
	vx.Assert(vx.EqBytes(dst[:m], want), "embedded well-formed octal escape is decoded and the surrounding text preserved")
	vx.Assert(vx.EqStr(strz.OctalParseToString(in), string(want)), "OctalParseToString: embedded escape decoded")
	vx.Observe("out", dst[:m])
}

// HexEmbed: pre ++ \xHH ++ post (either letter case per digit) decodes to pre ++ byte ++ post.
func HexEmbed() {
	pre := symText(vx.Param("np", 1), "pre")
	post := symText(vx.Param("nq", 1), "post")
	v := vx.Byte("v")
	esc := []byte{'\\', 'x', hexDigit(v>>4, vx.Bool("u1")), hexDigit(v&15, vx.Bool("u2"))}
	in := cat(pre, esc, post)
	want := cat(pre, []byte{v}, post)
	dst := make([]byte, len(in))
	m := strz.HexParse(dst, in)
	vx.Assert(vx.EqBytes(dst[:m], want), "embedded well-formed hex escape is decoded and the surrounding text preserved")
	vx.Assert(vx.EqStr(strz.HexParseToString(in), string(want)), "HexParseToString: embedded escape decoded")
	vx.Observe("out", dst[:m])
}

func hexEsc(prefix byte, v uint32, digits int) []byte {
	out := []byte{'\\', prefix}
	for i := digits - 1; i >= 0; i-- {
		out = append(out, hexDigit(byte(v>>(4*uint(i)))&15, vx.Bool("up")))
	}
	return out
}

// UniEmbed: pre ++ \UXXXXXXXX ++ post for every code point value <= 0x10FFFF (surrogate values become U+FFFD
// as utf8.EncodeRune documents).
func UniEmbed() {
	pre := symText(vx.Param("np", 1), "pre")
	post := symText(vx.Param("nq", 1), "post")
	v := vx.Uint32("v")
	vx.Assume(v <= utf8.MaxRune)
	in := cat(pre, hexEsc('U', v, 8), post)
	want := cat(pre, utf8.AppendRune(nil, rune(v)), post)
	dst := make([]byte, len(in))
	m := strz.UnicodeParse(dst, in)
	vx.Assert(vx.EqBytes(dst[:m], want), "embedded well-formed \\U escape is decoded and the surrounding text preserved")
	vx.Assert(vx.EqStr(strz.UnicodeParseToString(in), string(want)), "UnicodeParseToString: embedded escape decoded")
	vx.Observe("out", dst[:m])
}

// U16Embed: BMP non-surrogate unit, or a proper high/low surrogate pair.
func U16Embed() {
	pre := symText(vx.Param("np", 1), "pre")
	post := symText(vx.Param("nq", 1), "post")
	var esc, val []byte
	if vx.Choose(2) == 0 {
		v := vx.Uint32("v")
		vx.Assume(vx.And(v <= 0xFFFF, vx.Or(v < 0xD800, v > 0xDFFF)))
		esc = hexEsc('u', v, 4)
		val = utf8.AppendRune(nil, rune(v))
		vx.Cover("bmp unit")
	} else {
		r := vx.Uint32("r")
		vx.Assume(vx.And(r >= 0x10000, r <= utf8.MaxRune))
		hi := 0xD800 + (r-0x10000)>>10
		lo := 0xDC00 + (r-0x10000)&0x3FF
		esc = cat(hexEsc('u', hi, 4), hexEsc('u', lo, 4))
		val = utf8.AppendRune(nil, rune(r))
		vx.Cover("surrogate pair")
	}
	in := cat(pre, esc, post)
	want := cat(pre, val, post)
	dst := make([]byte, len(in))
	m := strz.Utf16Parse(dst, in)
	vx.Assert(vx.EqBytes(dst[:m], want), "embedded well-formed \\u escape (or surrogate pair) is decoded and the surrounding text preserved")
	vx.Assert(vx.EqStr(strz.Utf16ParseToString(in), string(want)), "Utf16ParseToString: embedded escape decoded")
	vx.Observe("out", dst[:m])
}

var Harnesses = map[string]func(){
	"vh/c07.OctRoundTrip": OctRoundTrip,
	"vh/c07.HexRoundTrip": HexRoundTrip,
	"vh/c07.UniRoundTrip": UniRoundTrip,
	"vh/c07.U16RoundTrip": U16RoundTrip,
	"vh/c07.UniInvalid":   UniInvalid,
	"vh/c07.OctArb":       OctArb,
	"vh/c07.HexArb":       HexArb,
	"vh/c07.UniArb":       UniArb,
	"vh/c07.U16Arb":       U16Arb,
	"vh/c07.OctEmbed":     OctEmbed,
	"vh/c07.HexEmbed":     HexEmbed,
	"vh/c07.UniEmbed":     UniEmbed,
	"vh/c07.U16Embed":     U16Embed,
}
