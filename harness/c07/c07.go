// Package c07: backslash escape codecs (strz/enc.go).
package c07

import (
	"github.com/welllog/golib/strz"
	"vh/vx"
)

// HexRoundTrip: HexParse(HexFormat(s)) == s for every byte string of length n.
func HexRoundTrip() {
	n := vx.Param("n", 2)
	s := vx.Bytes(n, "s")
	f := strz.HexFormat(s)
	vx.Assert(len(f) == 4*n, "HexFormat length is 4 per byte")
	dst := make([]byte, len(f))
	m := strz.HexParse(dst, f)
	vx.Assert(m == n, "HexParse returns the original length")
	vx.Assert(vx.EqBytes(dst[:m], s), "HexParse(HexFormat(s)) == s")
	vx.Observe("fmt", f)
}
