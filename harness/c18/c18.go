// Package c18: Knapsack, subset-sum solvers (FindDpSolvers/Best/BestAllowMinOverflow) and maximal cliques.
package c18

import (
	"github.com/welllog/golib/algz"
	"vh/vx"
)

type item struct{ id, w, v int }

func symItems(n, maxW, maxV int) []item {
	its := make([]item, n)
	for i := range its {
		w, v := vx.Int("w"), vx.Int("v")
		vx.Assume(vx.And(w >= 0, w <= maxW))
		vx.Assume(vx.And(v >= 1, v <= maxV))
		its[i] = item{i, w, v}
	}
	return its
}

func distinctIDs(sel []item, n int) bool {
	seen := make([]bool, n)
	for _, it := range sel {
		if it.id < 0 || it.id >= n || seen[it.id] {
			return false
		}
		seen[it.id] = true
	}
	return true
}

// Knapsack: the returned selection uses each item at most once, stays within the limit and attains the
// maximum total value over all 2^n selections (evaluated branch-free).
func Knapsack() {
	n := vx.Param("n", 3)
	var its []item
	var W int
	if vx.Param("enum", 0) == 1 {
		// larger item counts: weights from {1,2,3}, values from {1,10}, limit from {6,7}, enumerated by
		// forking (no symbolic data: an exhaustive small-domain enumeration, labelled as such)
		for i := 0; i < n; i++ {
			its = append(its, item{i, vx.Choose(3) + 1, []int{1, 10}[vx.Choose(2)]})
		}
		W = 6 + vx.Choose(2)
	} else {
		its = symItems(n, vx.Param("maxw", 6), vx.Param("maxv", 9))
		W = vx.Int("W")
		vx.Assume(vx.And(W >= 0, W <= vx.Param("maxW", 5)))
	}
	var sel []item
	if vx.Param("breaker", 0) == 1 {
		sel = algz.Knapsack(W, its, func(i item) int { return i.w }, func(i item) int { return i.v },
			func(old, nw []item) bool { return vx.UFBool("tie", len(old), len(nw)) })
	} else {
		sel = algz.Knapsack(W, its, func(i item) int { return i.w }, func(i item) int { return i.v })
	}
	vx.Assert(distinctIDs(sel, n), "Knapsack uses each item at most once")
	tw, tv := 0, 0
	for _, it := range sel {
		vx.Assert(vx.And(it.w == its[it.id].w, it.v == its[it.id].v), "Knapsack returns the given items unchanged")
		tw += it.w
		tv += it.v
	}
	vx.Assert(tw <= W, "Knapsack stays within the weight limit")
	best := 0
	for m := 0; m < 1<<n; m++ {
		sw, sv := 0, 0
		for i := 0; i < n; i++ {
			if m>>i&1 == 1 {
				sw += its[i].w
				sv += its[i].v
			}
		}
		best = vx.IteInt(vx.And(sw <= W, sv > best), sv, best)
	}
	vx.Assert(tv == best, "Knapsack attains the maximum total value over all selections within the limit")
}

func sumV(sel []item) int {
	s := 0
	for _, it := range sel {
		s += it.v
	}
	return s
}

// SubsetSum: FindDpSolvers / Best / BestAllowMinOverflow.
func SubsetSum() {
	n := vx.Param("n", 3)
	var its []item
	var M int
	switch vx.Param("mode", 0) {
	case 0:
		its = symItems(n, 0, vx.Param("maxv", 6))
		M = vx.Int("M")
		vx.Assume(vx.And(M >= 0, M <= vx.Param("maxM", 8)))
	case 1:
		// more items, enumerated rather than symbolic: values from {1,2,4,8,16} (equal values give ties, distinct
		// ones give pairwise different totals, so selections of 3 and more items are extended in several
		// ways), limit 15 or 31
		for i := 0; i < n; i++ {
			its = append(its, item{i, 0, 1 << vx.Choose(5)})
		}
		M = []int{15, 31}[vx.Choose(2)]
	case 2:
		// more items, symbolic super-increasing values (each larger than the sum of the earlier ones, in an
		// arbitrary position order chosen by rot): all 2^n totals are different, the limit is symbolic
		vals := make([]int, n)
		sum := 0
		for i := range vals {
			vals[i] = vx.Int("sv")
			vx.Assume(vx.And(vals[i] > sum, vals[i] <= 1<<20))
			sum += vals[i]
		}
		rot := vx.Choose(n)
		for i := 0; i < n; i++ {
			its = append(its, item{i, 0, vals[(i+rot)%n]})
		}
		M = vx.Int("M")
		vx.Assume(vx.And(M >= 0, M <= 1<<24))
	}
	over := vx.Choose(2) == 1
	var dp algz.DpSolvers[item]
	if vx.Param("breaker", 0) == 1 {
		dp = algz.FindDpSolvers(M, its, func(i item) int { return i.v }, over,
			func(old, nw []item) bool { return vx.UFBool("tie", len(old), len(nw)) })
	} else {
		dp = algz.FindDpSolvers(M, its, func(i item) int { return i.v }, over)
	}
	// every attainable total <= M has a selection with exactly that total; smallest overshoot present
	bestLE, minOver := 0, 1<<40
	for m := 0; m < 1<<n; m++ {
		t := 0
		for i := 0; i < n; i++ {
			if m>>i&1 == 1 {
				t += its[i].v
			}
		}
		if t <= M { // forks on the symbolic totals: the same comparisons the solver code makes
			sel, ok := dp[t]
			vx.Assert(ok, "every total attained by some selection within the limit has an entry")
			if ok {
				vx.Assert(vx.And(sumV(sel) == t, distinctIDs(sel, n)), "the entry for a total is a selection with exactly that total, no item twice")
			}
			if t > bestLE {
				bestLE = t
			}
		} else if t < minOver {
			minOver = t
		}
	}
	b := dp.Best(M)
	vx.Assert(vx.And(sumV(b) == bestLE, distinctIDs(b, n)), "Best yields the largest attainable total within the limit")
	if over && minOver < 1<<40 {
		sel, ok := dp[minOver]
		vx.Assert(ok, "with overflow allowed the smallest attainable total above the limit has an entry")
		if ok {
			vx.Assert(vx.And(sumV(sel) == minOver, distinctIDs(sel, n)), "the overflow entry is a selection with exactly that total")
		}
		bo := dp.BestAllowMinOverflow(M)
		want := minOver
		if bestLE == M {
			want = M
		}
		vx.Assert(vx.And(sumV(bo) == want, distinctIDs(bo, n)), "BestAllowMinOverflow yields the exact total if attainable, else the smallest overshoot")
		vx.Cover("overflow entry")
	}
	if !over {
		for m := 0; m < 1<<n; m++ {
			t := 0
			for i := 0; i < n; i++ {
				if m>>i&1 == 1 {
					t += its[i].v
				}
			}
			if t > M {
				_, ok := dp[t]
				vx.Assert(!ok, "without overflow no entry exceeds the limit")
			}
		}
	}
}

// Cliques: every undirected simple graph on n vertices (each edge a symbolic boolean) against brute force.
func Cliques() {
	n := vx.Param("n", 4)
	var g algz.Graph[int]
	adj := make([][]bool, n)
	for i := range adj {
		adj[i] = make([]bool, n)
		g.AddNode(i)
	}
	for i := 0; i < n; i++ {
		for j := i + 1; j < n; j++ {
			if vx.Bool("edge") {
				adj[i][j], adj[j][i] = true, true
				g.AddUndirectedEdge(i, j)
			}
		}
	}
	got := g.GetMaximalCliques()
	// brute force
	isClique := func(m int) bool {
		for i := 0; i < n; i++ {
			for j := i + 1; j < n; j++ {
				if m>>i&1 == 1 && m>>j&1 == 1 && !adj[i][j] {
					return false
				}
			}
		}
		return true
	}
	count := make(map[int]int)
	for _, c := range got {
		m := 0
		for _, v := range c {
			vx.Assert(v >= 0 && v < n && m>>v&1 == 0, "a clique lists distinct vertices of the graph")
			m |= 1 << v
		}
		count[m]++
	}
	if n >= 1 {
		// the empty vertex set is a clique but never a maximal one in a graph with vertices
		vx.Assert(count[0] == 0, "nothing but maximal cliques is returned")
	}
	for m := 1; m < 1<<n; m++ {
		maximal := isClique(m)
		if maximal {
			for v := 0; v < n; v++ {
				if m>>v&1 == 0 && isClique(m|1<<v) {
					maximal = false
				}
			}
		}
		if maximal {
			vx.Assert(count[m] == 1, "every maximal clique is returned exactly once")
		} else {
			vx.Assert(count[m] == 0, "nothing but maximal cliques is returned")
		}
	}
}

var Harnesses = map[string]func(){
	"vh/c18.Knapsack":  Knapsack,
	"vh/c18.SubsetSum": SubsetSum,
	"vh/c18.Cliques":   Cliques,
}
