// Package c13: DList against container/list, SList against a slice model.
package c13

import (
	"container/list"

	"github.com/welllog/golib/listz"
	"vh/vx"
)

type pair struct {
	d *listz.DNode[int]
	c *list.Element
}

func compareLists(dl *listz.DList[int], cl *list.List) {
	vx.Assert(dl.Len() == cl.Len(), "DList.Len equals container/list Len")
	var fw, cw []int
	for e := dl.Front(); e != nil; e = e.Next() {
		fw = append(fw, e.Value)
		if len(fw) > cl.Len()+2 {
			vx.Fail("DList forward traversal does not terminate", "dlist-cycle")
			return
		}
	}
	for e := cl.Front(); e != nil; e = e.Next() {
		cw = append(cw, e.Value.(int))
	}
	vx.Assert(vx.EqInts(fw, cw), "DList front-to-back values equal container/list")
	var bw, cbw []int
	for e := dl.Back(); e != nil; e = e.Prev() {
		bw = append(bw, e.Value)
		if len(bw) > cl.Len()+2 {
			vx.Fail("DList backward traversal does not terminate", "dlist-cycle")
			return
		}
	}
	for e := cl.Back(); e != nil; e = e.Prev() {
		cbw = append(cbw, e.Value.(int))
	}
	vx.Assert(vx.EqInts(bw, cbw), "DList back-to-front values equal container/list")
	var all []int
	for v := range dl.All() {
		all = append(all, v)
	}
	vx.Assert(vx.EqInts(all, cw), "DList.All yields the values front to back")
}

// DListOps: arbitrary operation sequences with live, removed and foreign node handles.
func DListOps() {
	var dl *listz.DList[int]
	if vx.Choose(2) == 0 {
		dl = new(listz.DList[int]) // zero value
	} else {
		dl = listz.NewDoubly[int]()
	}
	cl := list.New()
	// a foreign list with one element
	fd, fc := listz.NewDoubly[int](), list.New()
	var hs []pair
	hs = append(hs, pair{fd.PushBack(-7), fc.PushBack(-7)})
	n0 := vx.Choose(vx.Param("init", 2) + 1)
	for i := 0; i < n0; i++ {
		v := vx.Int("v")
		hs = append(hs, pair{dl.PushBack(v), cl.PushBack(v)})
	}
	nops := vx.Param("ops", 2)
	for step := 0; step < nops; step++ {
		op := vx.Choose(13)
		switch op {
		case 0:
			v := vx.Int("v")
			hs = append(hs, pair{dl.PushFront(v), cl.PushFront(v)})
		case 1:
			v := vx.Int("v")
			hs = append(hs, pair{dl.PushBack(v), cl.PushBack(v)})
		case 2, 3:
			v := vx.Int("v")
			m := hs[vx.Choose(len(hs))]
			var d *listz.DNode[int]
			var c *list.Element
			if op == 2 {
				d, c = dl.InsertBefore(v, m.d), cl.InsertBefore(v, m.c)
			} else {
				d, c = dl.InsertAfter(v, m.d), cl.InsertAfter(v, m.c)
			}
			vx.Assert((d == nil) == (c == nil), "InsertBefore/After with a node of another list (or a removed node) is a no-op returning nil")
			if d != nil && c != nil {
				hs = append(hs, pair{d, c})
			}
		case 4:
			h := hs[vx.Choose(len(hs))]
			got := dl.Remove(h.d)
			want := cl.Remove(h.c).(int)
			vx.Assert(got == want, "Remove returns the node's value")
		case 5:
			h := hs[vx.Choose(len(hs))]
			dl.MoveToFront(h.d)
			cl.MoveToFront(h.c)
		case 6:
			h := hs[vx.Choose(len(hs))]
			dl.MoveToBack(h.d)
			cl.MoveToBack(h.c)
		case 7, 8:
			h := hs[vx.Choose(len(hs))]
			m := hs[vx.Choose(len(hs))]
			if op == 7 {
				dl.MoveBefore(h.d, m.d)
				cl.MoveBefore(h.c, m.c)
			} else {
				dl.MoveAfter(h.d, m.d)
				cl.MoveAfter(h.c, m.c)
			}
		case 9:
			if vx.Choose(2) == 0 {
				dl.PushBackDList(dl)
				cl.PushBackList(cl)
				vx.Cover("list copied onto itself")
			} else {
				dl.PushBackDList(fd)
				cl.PushBackList(fc)
			}
		case 10:
			if vx.Choose(2) == 0 {
				dl.PushFrontDList(dl)
				cl.PushFrontList(cl)
			} else {
				dl.PushFrontDList(fd)
				cl.PushFrontList(fc)
			}
		case 11:
			// node-based insertion of a fresh node
			v := vx.Int("v")
			n := &listz.DNode[int]{Value: v}
			switch vx.Choose(2) {
			case 0:
				dl.PushFrontNode(n)
				hs = append(hs, pair{n, cl.PushFront(v)})
			case 1:
				dl.PushBackNode(n)
				hs = append(hs, pair{n, cl.PushBack(v)})
			}
		case 12:
			v := vx.Int("v")
			n := &listz.DNode[int]{Value: v}
			m := hs[vx.Choose(len(hs))]
			var c *list.Element
			if vx.Choose(2) == 0 {
				dl.InsertNodeBefore(n, m.d)
				c = cl.InsertBefore(v, m.c)
			} else {
				dl.InsertNodeAfter(n, m.d)
				c = cl.InsertAfter(v, m.c)
			}
			if c != nil {
				hs = append(hs, pair{n, c})
			}
		}
		compareLists(dl, cl)
		compareLists(fd, fc)
		// handles stay valid: every handle's value is unchanged and live handles are linked consistently
		for _, h := range hs {
			vx.Assert(h.d.Value == h.c.Value.(int), "node handles keep their values across unrelated operations")
		}
	}
}

func compareSList(l *listz.SList[int], model []int) {
	vx.Assert(l.Len() == len(model), "SList.Len equals the sequence length")
	var got []int
	for e := l.Front(); e != nil; e = e.Next() {
		got = append(got, e.Value)
		if len(got) > len(model)+2 {
			vx.Fail("SList traversal does not terminate", "slist-cycle")
			return
		}
	}
	vx.Assert(vx.EqInts(got, model), "SList Next-traversal equals the sequence")
	if len(model) == 0 {
		vx.Assert(l.Front() == nil && l.Back() == nil, "empty SList has nil Front and Back")
	} else {
		vx.Assert(l.Front() != nil && l.Back() != nil, "non-empty SList has Front and Back")
		if l.Front() != nil && l.Back() != nil {
			vx.Assert(l.Front().Value == model[0], "SList.Front is the first element")
			vx.Assert(l.Back().Value == model[len(model)-1], "SList.Back is the last element")
			vx.Assert(l.Back().Next() == nil, "SList.Back has no successor")
		}
	}
	var all []int
	for v := range l.All() {
		all = append(all, v)
	}
	vx.Assert(vx.EqInts(all, model), "SList.All yields the sequence")
}

func clamp(i, n int) int {
	if i <= 0 {
		return 0
	}
	if i >= n {
		return n
	}
	return i
}

// SListOps: index-based operations with symbolic (also out-of-range) indices against a slice model.
func SListOps() {
	var l *listz.SList[int]
	if vx.Choose(2) == 0 {
		l = new(listz.SList[int])
	} else {
		l = listz.NewSingly[int]()
	}
	var model []int
	n0 := vx.Choose(vx.Param("init", 3) + 1)
	for i := 0; i < n0; i++ {
		v := vx.Int("v")
		l.PushBack(v)
		model = append(model, v)
	}
	compareSList(l, model)
	nops := vx.Param("ops", 2)
	for step := 0; step < nops; step++ {
		switch vx.Choose(8) {
		case 0:
			v := vx.Int("v")
			l.PushFront(v)
			model = append([]int{v}, model...)
		case 1:
			v := vx.Int("v")
			l.PushBack(v)
			model = append(model, v)
		case 2:
			i, v := vx.Int("i"), vx.Int("v")
			l.InsertAt(i, v)
			at := clamp(i, len(model))
			model = append(append(append([]int(nil), model[:at]...), v), model[at:]...)
		case 3:
			i := vx.Int("i")
			e := l.Remove(i)
			inRange := vx.And(i >= 0, i < len(model))
			vx.Assert((e != nil) == inRange, "SList.Remove rejects out-of-range indices")
			if e != nil {
				vx.Assert(e.Value == model[i], "SList.Remove returns the node at the index")
				vx.Assert(e.Next() == nil, "a removed node is unlinked")
				model = append(append([]int(nil), model[:i]...), model[i+1:]...)
			}
		case 4:
			e := l.RemoveFront()
			vx.Assert((e != nil) == (len(model) > 0), "SList.RemoveFront fails iff empty")
			if e != nil {
				vx.Assert(e.Value == model[0], "SList.RemoveFront returns the first node")
				model = append([]int(nil), model[1:]...)
			}
		case 5:
			i := vx.Int("i")
			e := l.Get(i)
			inRange := vx.And(i >= 0, i < len(model))
			vx.Assert((e != nil) == inRange, "SList.Get rejects out-of-range indices")
			if e != nil {
				vx.Assert(e.Value == model[i], "SList.Get returns the node at the index")
			}
		case 6:
			i, j := vx.Int("i"), vx.Int("j")
			l.Swap(i, j)
			if i >= 0 && i < len(model) && j >= 0 && j < len(model) {
				model = append([]int(nil), model...)
				model[i], model[j] = model[j], model[i]
			}
		case 7:
			v := vx.Int("v")
			n := &listz.SNode[int]{Value: v}
			switch vx.Choose(3) {
			case 0:
				l.PushFrontNode(n)
				model = append([]int{v}, model...)
			case 1:
				l.PushBackNode(n)
				model = append(model, v)
			case 2:
				i := vx.Int("i")
				l.InsertNodeAt(i, n)
				at := clamp(i, len(model))
				model = append(append(append([]int(nil), model[:at]...), v), model[at:]...)
			}
		}
		compareSList(l, model)
	}
}

var Harnesses = map[string]func(){
	"vh/c13.DListOps": DListOps,
	"vh/c13.SListOps": SListOps,
}
