// Package lin: a small Wing–Gong linearizability checker for queue histories (plain Go, runs
// concretely on every explored schedule; results and time stamps are concrete on a path).
package lin

const (
	Push = iota
	Pop
	Len
	IsEmpty
	IsFull
)

type Op struct {
	Kind int
	Arg  int  // pushed value
	OK   bool // Push/Pop success
	Ret  int  // popped value / Len result / 0-1 for IsEmpty, IsFull
	Inv  int  // logical time of the call
	Res  int  // logical time of the return
	G    int
}

func overlaps(a, b *Op) bool { return a.Inv < b.Res && b.Inv < a.Res }

// Queue checks that the history is linearizable to a FIFO queue holding at most cap elements (cap < 0:
// unbounded) that initially contains init.  A failed Push/Pop that overlaps another operation is
// unconstrained (dropped); one that overlaps nothing must see a full/empty queue.  Len/IsEmpty/IsFull are
// only constrained when exactLen is set (quiescent observers are checked separately by the harnesses).
func Queue(h []Op, init []int, capacity int) bool {
	var ops []*Op
	for i := range h {
		o := &h[i]
		if o.Kind == Len || o.Kind == IsEmpty || o.Kind == IsFull {
			continue
		}
		if !o.OK {
			lonely := true
			for j := range h {
				if j != i && h[j].Kind != Len && h[j].Kind != IsEmpty && h[j].Kind != IsFull && overlaps(o, &h[j]) {
					lonely = false
				}
			}
			if !lonely {
				continue
			}
		}
		ops = append(ops, o)
	}
	done := make([]bool, len(ops))
	q := append([]int(nil), init...)
	return search(ops, done, q, capacity, len(ops))
}

func search(ops []*Op, done []bool, q []int, capacity, left int) bool {
	if left == 0 {
		return true
	}
	for i, a := range ops {
		if done[i] {
			continue
		}
		// a may be linearized next only if no pending operation returned before a was called
		minimal := true
		for j, b := range ops {
			if !done[j] && j != i && b.Res <= a.Inv {
				minimal = false
				break
			}
		}
		if !minimal {
			continue
		}
		var nq []int
		ok := false
		switch a.Kind {
		case Push:
			if a.OK {
				if capacity < 0 || len(q) < capacity {
					nq = append(append([]int(nil), q...), a.Arg)
					ok = true
				}
			} else if capacity >= 0 && len(q) == capacity {
				nq, ok = q, true
			}
		case Pop:
			if a.OK {
				if len(q) > 0 && q[0] == a.Ret {
					nq = append([]int(nil), q[1:]...)
					ok = true
				}
			} else if len(q) == 0 {
				nq, ok = q, true
			}
		}
		if !ok {
			continue
		}
		done[i] = true
		if search(ops, done, nq, capacity, left-1) {
			return true
		}
		done[i] = false
	}
	return false
}

// Conservation: every successfully pushed value (plus the initial content) is popped exactly once or remains.
func Conservation(h []Op, init, remaining []int) bool {
	count := map[int]int{}
	for _, v := range init {
		count[v]++
	}
	for _, o := range h {
		if o.Kind == Push && o.OK {
			count[o.Arg]++
		}
	}
	for _, o := range h {
		if o.Kind == Pop && o.OK {
			count[o.Ret]--
		}
	}
	for _, v := range remaining {
		count[v]--
	}
	for _, c := range count {
		if c != 0 {
			return false
		}
	}
	return true
}

// GOp is an operation of an arbitrary sequential object: Apply checks the recorded result against the
// state and returns the successor state (ok=false: the result is impossible in this state).
type GOp struct {
	Inv, Res int
	Apply    func(s map[int]int) (map[int]int, bool)
}

// Generic: Wing–Gong search for a linearization of h from the initial state.
func Generic(h []GOp, init map[int]int) bool {
	done := make([]bool, len(h))
	return gsearch(h, done, init, len(h))
}

func gsearch(h []GOp, done []bool, s map[int]int, left int) bool {
	if left == 0 {
		return true
	}
	for i := range h {
		if done[i] {
			continue
		}
		minimal := true
		for j := range h {
			if !done[j] && j != i && h[j].Res <= h[i].Inv {
				minimal = false
				break
			}
		}
		if !minimal {
			continue
		}
		ns, ok := h[i].Apply(s)
		if !ok {
			continue
		}
		done[i] = true
		if gsearch(h, done, ns, left-1) {
			return true
		}
		done[i] = false
	}
	return false
}

// CloneMap copies a small map.
func CloneMap(m map[int]int) map[int]int {
	n := make(map[int]int, len(m))
	for k, v := range m {
		n[k] = v
	}
	return n
}
