// Package c14: slicez set operations, in-place variants, index helpers and FlexSlice (T = int).
package c14

import (
	"errors"

	"github.com/welllog/golib/slicez"
	"vh/vx"
)

func symInts(n int, name string) []int {
	if n < 0 {
		return nil
	}
	s := make([]int, n)
	for i := range s {
		s[i] = vx.Int(name)
	}
	return s
}

func in(s []int, v int) bool {
	r := false
	for _, x := range s {
		r = vx.Or(r, x == v)
	}
	return r
}

func count(s []int, v int) int {
	c := 0
	for _, x := range s {
		c += vx.IteInt(x == v, 1, 0)
	}
	return c
}

// sameMultiset: equal lengths and equal multiplicity of every element (branch-free).
func sameMultiset(a, b []int) bool {
	if len(a) != len(b) {
		return false
	}
	r := true
	for _, x := range a {
		r = vx.And(r, count(a, x) == count(b, x))
	}
	return r
}

func clone(s []int) []int { return append([]int(nil), s...) }

// mkDst: 0 = nil, 1 = fresh with spare capacity, 2 = the prefix s[:0] of the first input, 3 = of the second
func mkDst(kind int, s []int, s2 ...[]int) []int {
	switch kind {
	case 1:
		return make([]int, 1, 8)
	case 2:
		return s[:0]
	case 3:
		return s2[0][:0]
	}
	return nil
}

func noPanic(what string) {
	if r := recover(); r != nil {
		vx.Fail(what+" panics", what+"-panic")
	}
}

// SetOps: Diff / Intersect and their InPlace variants.
func SetOps() {
	n1, n2 := vx.Param("n1", 2), vx.Param("n2", 2)
	s1, s2 := symInts(n1, "a"), symInts(n2, "b")
	if vx.Param("nil2", 0) == 1 {
		s2 = nil
	}
	o1, o2 := clone(s1), clone(s2)
	defer noPanic("slicez set operation")
	op := vx.Choose(4)
	var want []int
	for _, v := range o1 {
		keep := in(o2, v)
		if op == 0 || op == 2 {
			keep = !keep
		}
		if keep {
			want = append(want, v)
		}
	}
	switch op {
	case 0, 1:
		kind := vx.Choose(4)
		dst := mkDst(kind, s1, s2)
		var got []int
		if op == 0 {
			got = slicez.Diff(dst, s1, s2)
		} else {
			got = slicez.Intersect(dst, s1, s2)
		}
		vx.Assert(vx.EqInts(got, want), "Diff/Intersect return exactly the selected elements of the first slice in order")
		if kind != 2 {
			vx.Assert(vx.EqInts(s1, o1), "Diff/Intersect with a separate dst leave the first slice unchanged")
		}
		if kind != 3 {
			vx.Assert(vx.EqInts(s2, o2), "Diff/Intersect leave the second slice unchanged")
		}
		vx.Observe("got", len(got))
	case 2, 3:
		var got []int
		if op == 2 {
			got = slicez.DiffInPlaceFirst(s1, s2)
		} else {
			got = slicez.IntersectInPlaceFirst(s1, s2)
		}
		vx.Assert(sameMultiset(got, want), "InPlace variant returns the same multiset as the definition")
		vx.Assert(sameMultiset(s1, o1), "InPlace variant leaves the argument a permutation of its original content")
		vx.Assert(vx.EqInts(s2, o2), "InPlace variant leaves the second slice unchanged")
		vx.Observe("got", len(got))
	}
}

// UniqueOps: Unique, UniqueByKey, Filter and InPlace variants.
func UniqueOps() {
	n := vx.Param("n", 3)
	s := symInts(n, "a")
	o := clone(s)
	defer noPanic("slicez unique/filter")
	key := func(v int) int { return vx.UFInt("key", v) }
	pred := func(v int) bool { return vx.UFBool("pred", v) }
	op := vx.Choose(6)
	var want []int
	switch op {
	case 0, 1:
		for i, v := range o {
			if !in(o[:i], v) {
				want = append(want, v)
			}
		}
	case 2, 3:
		var seen []int
		for _, v := range o {
			k := key(v)
			if !in(seen, k) {
				want = append(want, v)
				seen = append(seen, k)
			}
		}
	case 4, 5:
		for _, v := range o {
			if pred(v) {
				want = append(want, v)
			}
		}
	}
	kind := vx.Choose(3)
	var got []int
	switch op {
	case 0:
		got = slicez.Unique(mkDst(kind, s), s)
	case 2:
		got = slicez.UniqueByKey(mkDst(kind, s), s, key)
	case 4:
		got = slicez.Filter(mkDst(kind, s), s, pred)
	case 1:
		got = slicez.UniqueInPlace(s)
	case 3:
		got = slicez.UniqueByKeyInPlace(s, key)
	case 5:
		got = slicez.FilterInPlace(s, pred)
	}
	if op%2 == 0 {
		vx.Assert(vx.EqInts(got, want), "Unique/UniqueByKey/Filter return the selected elements in first-slice order (first occurrence)")
		if kind != 2 {
			vx.Assert(vx.EqInts(s, o), "with a separate dst the input is unchanged")
		}
	} else {
		if op == 3 {
			// keys of the result are pairwise distinct and cover the keys of the input
			vx.Assert(len(got) == len(want), "UniqueByKeyInPlace keeps one element per key")
		} else {
			vx.Assert(sameMultiset(got, want), "InPlace variant returns the same multiset as the definition")
		}
		vx.Assert(sameMultiset(s, o), "InPlace variant leaves the argument a permutation of its original content")
	}
}

// IndexOps: Equal, Index, Contains, SubSlice, Copy, Remove, Chunk, ChunkProcess, Values with symbolic arguments.
func IndexOps() {
	n := vx.Param("n", 3)
	s := symInts(n, "a")
	if n == 0 && vx.Choose(2) == 1 {
		s = nil
	}
	o := clone(s)
	defer noPanic("slicez index helper")
	switch vx.Choose(8) {
	case 0:
		t := symInts(vx.Choose(n+2), "b")
		vx.Assert(slicez.Equal(s, t) == vx.EqInts(s, t), "Equal is element-wise equality")
	case 1:
		v := vx.Int("v")
		idx := slicez.Index(s, v)
		want := -1
		for i := n - 1; i >= 0; i-- {
			want = vx.IteInt(o[i] == v, i, want)
		}
		vx.Assert(idx == want, "Index returns the first position of v or -1")
		vx.Assert(slicez.Contains(s, v) == in(o, v), "Contains reports membership")
		f := func(x int) bool { return vx.UFBool("pred", x) }
		wi := -1
		for i := n - 1; i >= 0; i-- {
			wi = vx.IteInt(f(o[i]), i, wi)
		}
		vx.Assert(slicez.IndexFunc(s, f) == wi, "IndexFunc returns the first position satisfying the predicate or -1")
		vx.Assert(slicez.ContainsFunc(s, f) == (wi >= 0), "ContainsFunc agrees with IndexFunc")
	case 2:
		start, end := vx.Int("start"), vx.Int("end")
		got := slicez.SubSlice(s, start, end)
		var want []int
		if start <= n {
			st := start
			if st < 0 {
				st = 0
			}
			en := end
			if en < 0 || en > n {
				en = n
			}
			if st < en {
				want = o[st:en]
			}
		}
		vx.Assert(vx.EqInts(got, want), "SubSlice follows its clamping rules")
	case 3:
		start, length := vx.Int("start"), vx.Int("length")
		got := slicez.Copy(s, start, length)
		var want []int
		if n > 0 && start < n && length != 0 {
			st := start
			if st < 0 {
				st = 0
			}
			ln := length
			if ln < 0 || ln > n-st {
				ln = n - st
			}
			want = o[st : st+ln]
		}
		vx.Assert(vx.EqInts(got, want), "Copy follows its clamping rules")
		if len(got) > 0 {
			got[0]++
			vx.Assert(vx.EqInts(s, o), "Copy returns fresh memory")
		}
	case 4:
		idx := vx.Int("idx")
		got, v, ok := slicez.Remove(s, idx)
		inRange := vx.And(idx >= 0, idx < n)
		vx.Assert(ok == inRange, "Remove succeeds exactly for indices in range")
		if ok {
			vx.Assert(v == o[idx], "Remove returns the removed element")
			want := append(clone(o[:idx]), o[idx+1:]...)
			vx.Assert(vx.EqInts(got, want), "Remove deletes exactly that element and keeps the order")
		} else {
			vx.Assert(vx.EqInts(got, o), "a rejected Remove returns the slice unchanged")
		}
	case 5:
		size := vx.Int("size")
		chunks := slicez.Chunk(s, size)
		checkChunks(chunks, o, size)
		var seen [][]int
		err := slicez.ChunkProcess(s, size, func(c []int) error { seen = append(seen, clone(c)); return nil })
		vx.Assert(err == nil, "ChunkProcess returns nil when process does")
		checkChunks(seen, o, size)
	case 6:
		size := vx.Int("size")
		stop := vx.Choose(n + 1)
		boom := errors.New("stop")
		calls := 0
		err := slicez.ChunkProcess(s, size, func(c []int) error {
			calls++
			if calls == stop {
				return boom
			}
			return nil
		})
		if err != nil {
			vx.Assert(vx.And(err == boom, calls == stop), "ChunkProcess stops at the first error and returns it")
		}
	case 7:
		t := symInts(vx.Choose(3), "b")
		got := slicez.Values(func(x int) int { return x + 1 }, s, t)
		want := append(clone(o), t...)
		for i := range want {
			want[i]++
		}
		vx.Assert(vx.EqInts(got, want), "Values maps every element of every slice in order")
		if len(got) > 0 && n > 0 {
			got[0] = 0
			vx.Assert(vx.EqInts(s, o), "Values returns fresh memory")
		}
	}
}

func checkChunks(chunks [][]int, o []int, size int) {
	var flat []int
	for i, c := range chunks {
		flat = append(flat, c...)
		if size >= 1 && len(o) > size {
			if i < len(chunks)-1 {
				vx.Assert(len(c) == size, "every chunk but the last has the requested size")
			} else {
				vx.Assert(vx.And(len(c) >= 1, len(c) <= size), "the last chunk is non-empty and not longer than the requested size")
			}
		}
	}
	vx.Assert(vx.EqInts(flat, o), "the concatenation of the chunks is the input")
	if len(o) > 0 && (size < 1 || len(o) <= size) {
		vx.Assert(len(chunks) == 1, "a non-positive or oversized chunk size yields the whole slice as one chunk")
	}
	if len(o) == 0 {
		vx.Assert(len(chunks) == 0, "an empty input yields no chunks")
	}
}

// Flex: FlexSlice from an arbitrary (len, cap) state, then arbitrary operations against a slice model.
func Flex() {
	n := vx.Choose(vx.Param("maxn", 3) + 1)
	c := vx.Int("cap")
	vx.Assume(vx.And(c >= n, c <= vx.Param("maxcap", 36)))
	f := slicez.FlexSlice[int]{Values: make([]int, n, c)}
	model := make([]int, n)
	for i := 0; i < n; i++ {
		v := vx.Int("init")
		f.Values[i] = v
		model[i] = v
	}
	defer noPanic("FlexSlice")
	nops := vx.Param("ops", 2)
	for step := 0; step < nops; step++ {
		switch vx.Choose(7) {
		case 0:
			vs := symInts(vx.Choose(2)+1, "v")
			f.Append(vs...)
			model = append(model, vs...)
		case 1:
			vs := symInts(vx.Choose(3), "v")
			f.Prepend(vs...)
			model = append(clone(vs), model...)
		case 2:
			i := vx.Int("i")
			v, ok := f.Get(i)
			inRange := vx.And(i >= 0, i < len(model))
			vx.Assert(ok == inRange, "Get succeeds exactly for indices in range")
			if ok {
				vx.Assert(v == model[i], "Get returns the element at the index")
			}
		case 3:
			i := vx.Int("i")
			v, ok := f.Remove(i)
			inRange := vx.And(i >= 0, i < len(model))
			vx.Assert(ok == inRange, "FlexSlice.Remove succeeds exactly for indices in range")
			if ok {
				vx.Assert(v == model[i], "FlexSlice.Remove returns the removed element")
				model = append(clone(model[:i]), model[i+1:]...)
			}
		case 4:
			v, ok := f.Pop()
			vx.Assert(ok == (len(model) > 0), "Pop fails iff empty")
			if ok {
				vx.Assert(v == model[len(model)-1], "Pop returns the last element")
				model = model[:len(model)-1]
			}
		case 5:
			v, ok := f.Shift()
			vx.Assert(ok == (len(model) > 0), "Shift fails iff empty")
			if ok {
				vx.Assert(v == model[0], "Shift returns the first element")
				model = clone(model[1:])
			}
		case 6:
			start, end := vx.Int("start"), vx.Int("end")
			sub := f.SubSlice(start, end)
			var want []int
			m := len(model)
			if start <= m {
				st := start
				if st < 0 {
					st = 0
				}
				en := end
				if en < 0 || en > m {
					en = m
				}
				if st < en {
					want = model[st:en]
				}
			}
			vx.Assert(vx.EqInts(sub.Values, want), "FlexSlice.SubSlice follows SubSlice's clamping rules")
		}
		vx.Assert(f.Len() == len(model), "FlexSlice.Len equals the sequence length")
		vx.Assert(vx.EqInts(f.Values, model), "FlexSlice holds the model sequence")
	}
	vx.Observe("len", f.Len())
}

var Harnesses = map[string]func(){
	"vh/c14.SetOps":    SetOps,
	"vh/c14.UniqueOps": UniqueOps,
	"vh/c14.IndexOps":  IndexOps,
	"vh/c14.Flex":      Flex,
}
