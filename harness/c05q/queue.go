// Package c05q: the private BFS queue of algz.Trie.BuildFailureLinks (needs the in-package overlay inpkg/algz_zz.go).
package c05q

import (
	"github.com/welllog/golib/algz"
	"vh/vx"
)

// QueueFIFO: the breadth-first order BuildFailureLinks depends on. The private node queue starts in an
// arbitrary reachable state (capacity, symbolic head position, fill), then an arbitrary sequence of pushes
// and pops runs (growth while the content is wrapped around the buffer end included); every Pop must return
// the oldest node, exactly as a FIFO model does.
func QueueFIFO() {
	cp := 1 + vx.Choose(vx.Param("maxcap", 4))
	n := vx.Choose(cp + 1)
	head := vx.Uint32("head")
	vx.Assume(head < uint32(vx.Param("maxhead", 64)))
	q := algz.VerifQueueAt(cp, head, n)
	var model []int
	for i := 0; i < n; i++ {
		model = append(model, i)
	}
	next := n
	nops := vx.Param("ops", 4)
	for step := 0; step < nops; step++ {
		if vx.Choose(2) == 0 {
			q.Push(next)
			model = append(model, next)
			next++
		} else {
			got := q.Pop()
			if len(model) == 0 {
				vx.Assert(got == -1, "Pop on an empty queue returns nil")
			} else {
				vx.AssertSig(got == model[0], "the BFS queue pops nodes in the order they were pushed", "queue-fifo")
				model = model[1:]
			}
		}
		vx.Assert(q.Len() == len(model), "queue Len is the number of queued nodes")
		vx.Assert(q.IsEmpty() == (len(model) == 0), "queue IsEmpty iff nothing is queued")
	}
	// drain
	for len(model) > 0 {
		vx.AssertSig(q.Pop() == model[0], "the BFS queue pops nodes in the order they were pushed", "queue-fifo")
		model = model[1:]
	}
	vx.Assert(q.Pop() == -1 && q.IsEmpty(), "drained queue is empty")
}

var Harnesses = map[string]func(){
	"vh/c05q.QueueFIFO": QueueFIFO,
}
