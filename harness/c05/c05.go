// Package c05: Trie multi-pattern queries (C05) and Replace/ReplaceWithMask (C06).
//
// Strings are sequences of letters from a symbolic alphabet: letter 0 is an arbitrary 1-byte rune, letter 1 an
// arbitrary 2-byte rune, letter 2 an arbitrary 3-byte rune (U+FFFD included), letter 3 an arbitrary 4-byte
// rune (the assignment can be rotated by the job parameter rot); a text may additionally contain one arbitrary invalid byte (letter -1).  The trie depends on runes
// only through order/equality and byte width, so the letter structure is concrete on a path while the rune
// values are decided by the solver.
package c05

import (
	"unicode/utf8"

	"github.com/welllog/golib/algz"
	"vh/vx"
)

type alphabet struct {
	enc [][]byte // UTF-8 encodings of the letters
	bad []byte   // one invalid byte
}

func newAlphabet() *alphabet {
	a := &alphabet{}
	lo := []rune{0x20, 0x80, 0x800, 0x10000}
	hi := []rune{0x7F, 0x7FF, 0xFFFF, utf8.MaxRune}
	// rot rotates the assignment of UTF-8 widths to letters: letter l is a (1 + (l+rot)%4)-byte rune, so jobs
	// over the first two or three letters can still be made to contain 4-byte runes
	rot := vx.Param("rot", 0)
	for l := 0; l < 4; l++ {
		i := (l + rot) % 4
		r := vx.Rune("letter")
		vx.Assume(vx.And(r >= lo[i], vx.And(r <= hi[i], vx.Not(vx.And(r >= 0xD800, r <= 0xDFFF)))))
		a.enc = append(a.enc, utf8.AppendRune(nil, r))
	}
	b := vx.Byte("badbyte")
	vx.Assume(b >= 0x80)
	a.bad = []byte{b}
	return a
}

func (a *alphabet) str(ls []int) string {
	var b []byte
	for _, l := range ls {
		if l < 0 {
			b = append(b, a.bad...)
		} else {
			b = append(b, a.enc[l]...)
		}
	}
	return string(b)
}

func (a *alphabet) width(l int) int {
	if l < 0 {
		return 1
	}
	return len(a.enc[l])
}

// chooseLetters: a letter sequence of length 0..max over the first nl letters.
func chooseLetters(max, nl int) []int {
	n := vx.Choose(max + 1)
	ls := make([]int, n)
	for i := range ls {
		ls[i] = vx.Choose(nl)
	}
	return ls
}

func eqLetters(a, b []int) bool {
	if len(a) != len(b) {
		return false
	}
	for i := range a {
		if a[i] != b[i] || a[i] < 0 {
			return false
		}
	}
	return true
}

type occ struct{ pat, from, to int } // letter positions [from,to)

func occurrences(pats [][]int, text []int) []occ {
	var out []occ
	for end := 1; end <= len(text); end++ {
		for p, pat := range pats {
			if len(pat) == 0 || len(pat) > end {
				continue
			}
			dup := false
			for q := 0; q < p; q++ {
				if eqLetters(pats[q], pat) {
					dup = true
				}
			}
			if !dup && eqLetters(text[end-len(pat):end], pat) {
				out = append(out, occ{p, end - len(pat), end})
			}
		}
	}
	return out
}

func countStr(list []string, s string) int {
	c := 0
	for _, x := range list {
		c += vx.IteInt(vx.EqStr(x, s), 1, 0)
	}
	return c
}

func sameStrings(got, want []string) bool {
	if len(got) != len(want) {
		return false
	}
	r := true
	for _, w := range want {
		r = vx.And(r, countStr(got, w) == countStr(want, w))
	}
	return r
}

func setup() (*alphabet, *algz.Trie, [][]int, []string) {
	a := newAlphabet()
	np := vx.Param("npat", 2)
	pl := vx.Param("plen", 2)
	nl := vx.Param("letters", 3)
	var t algz.Trie
	var pats [][]int
	var strs []string
	for i := 0; i < np; i++ {
		var p []int
		if n := vx.Param([]string{"len0", "len1", "len2", "len3"}[i%4], -1); n >= 0 && i < 4 {
			p = chooseLettersExact(n, nl) // pattern i has exactly n letters (deep failure-link chains, nestings)
		} else if i == np-1 && vx.Param("lastlen", 0) > 0 {
			p = chooseLettersExact(vx.Param("lastlen", 0), nl)
		} else {
			p = chooseLetters(pl, nl)
		}
		pats = append(pats, p)
		s := a.str(p)
		strs = append(strs, s)
		t.Insert(s)
	}
	t.BuildFailureLinks()
	return a, &t, pats, strs
}

func chooseLettersExact(n, nl int) []int {
	ls := make([]int, n)
	for i := range ls {
		ls[i] = vx.Choose(nl)
	}
	return ls
}

func chooseText(a *alphabet) ([]int, string) {
	nl := vx.Param("letters", 3)
	text := chooseLetters(vx.Param("tlen", 3), nl)
	if vx.Param("invalid", 0) == 1 && len(text) > 0 {
		// one position may hold an arbitrary invalid byte
		if p := vx.Choose(len(text) + 1); p < len(text) {
			text[p] = -1
			vx.Cover("invalid byte in text")
		}
	}
	return text, a.str(text)
}

func noPanic(what, sig string) {
	if r := recover(); r != nil {
		vx.Fail(what+" panics", sig)
	}
}

// Queries: Match / FindAll exactness against naive occurrence enumeration.
func Queries() {
	a, t, pats, _ := setup()
	text, ts := chooseText(a)
	occs := occurrences(pats, text)
	defer noPanic("Match/FindAll", "find-panic")
	vx.AssertSig(t.Match(ts) == (len(occs) > 0), "Match is true iff some non-empty pattern occurs in the text", "match-inexact")
	var want []string
	for _, o := range occs {
		want = append(want, a.str(pats[o.pat]))
		if o.to-o.from > 1 && len(occs) > 1 {
			vx.Cover("several occurrences")
		}
	}
	got := t.FindAll(ts)
	vx.AssertSig(sameStrings(got, want), "FindAll returns exactly one entry per (pattern, position) occurrence", "findall-inexact")
}

// Prefix: PrefixSearch exact, FuzzySearch sound.
func Prefix() {
	a, t, pats, strs := setup()
	key := chooseLetters(vx.Param("klen", 2), vx.Param("letters", 3))
	ks := a.str(key)
	defer noPanic("PrefixSearch/FuzzySearch", "search-panic")
	var want []string
	for i, p := range pats {
		if len(p) == 0 || len(p) < len(key) || !eqLetters(p[:len(key)], key) && len(key) > 0 {
			continue
		}
		dup := false
		for q := 0; q < i; q++ {
			if eqLetters(pats[q], p) {
				dup = true
			}
		}
		if !dup {
			want = append(want, strs[i])
		}
	}
	got := t.PrefixSearch(ks)
	vx.AssertSig(sameStrings(got, want), "PrefixSearch returns exactly the inserted patterns that start with the key, each once", "prefixsearch-inexact")
	for _, f := range t.FuzzySearch(ks) {
		vx.AssertSig(countStr(strs, f) > 0, "every string returned by FuzzySearch is an inserted pattern", "fuzzysearch-unsound")
	}
}

// Replace: ReplaceWithMask and Replace against the coverage computed from naive occurrences.
func Replace() {
	a, t, pats, _ := setup()
	text, ts := chooseText(a)
	occs := occurrences(pats, text)
	covered := make([]bool, len(text))
	for _, o := range occs {
		for i := o.from; i < o.to; i++ {
			covered[i] = true
		}
	}
	defer noPanic("Replace/ReplaceWithMask", "replace-panic")
	// mask: an arbitrary rune
	mask := vx.Rune("mask")
	vx.Assume(vx.And(mask >= 0, vx.And(mask <= utf8.MaxRune, vx.Not(vx.And(mask >= 0xD800, mask <= 0xDFFF)))))
	menc := utf8.AppendRune(nil, mask)
	var wantMask []byte
	for i, l := range text {
		if covered[i] {
			wantMask = append(wantMask, menc...)
		} else if l < 0 {
			wantMask = append(wantMask, a.bad...)
		} else {
			wantMask = append(wantMask, a.enc[l]...)
		}
	}
	gotMask := t.ReplaceWithMask(ts, mask)
	vx.AssertSig(vx.EqStr(gotMask, string(wantMask)), "ReplaceWithMask replaces exactly the runes inside pattern occurrences", "mask-inexact")
	if vx.Param("emptyrepl", 0) == 1 {
		// empty replacement: the output is exactly the uncovered part of the text
		var want []byte
		for i, l := range text {
			if covered[i] {
				continue
			}
			if l < 0 {
				want = append(want, a.bad...)
			} else {
				want = append(want, a.enc[l]...)
			}
		}
		vx.AssertSig(vx.EqStr(t.Replace(ts, ""), string(want)), "Replace with an empty replacement removes exactly the covered bytes", "replace-inexact")
		return
	}
	// Replace with a byte that cannot occur in the text alphabet
	out := t.Replace(ts, "\x01")
	pos := 0
	ok := true
	for i := 0; i < len(text); {
		if !covered[i] {
			w := a.width(text[i])
			if pos+w > len(out) {
				ok = false
				break
			}
			var enc []byte
			if text[i] < 0 {
				enc = a.bad
			} else {
				enc = a.enc[text[i]]
			}
			ok = vx.And(ok, vx.EqStr(out[pos:pos+w], string(enc)))
			pos += w
			i++
			continue
		}
		// maximal covered region [i, j)
		j := i
		for j < len(text) && covered[j] {
			j++
		}
		k := 0
		for _, o := range occs {
			if o.from >= i && o.to <= j {
				k++
			}
		}
		c := 0
		for pos < len(out) && out[pos] == 1 {
			pos++
			c++
		}
		if c < 1 || c > k {
			ok = false
		}
		if j-i > 1 && k > 1 {
			vx.Cover("overlapping region")
		}
		i = j
	}
	if pos != len(out) {
		ok = false
	}
	vx.AssertSig(ok, "Replace removes exactly the covered bytes, keeps the rest, and puts 1..k replacements per maximal covered region", "replace-inexact")
}

var Harnesses = map[string]func(){
	"vh/c05.Queries": Queries,
	"vh/c05.Prefix":  Prefix,
	"vh/c05.Replace": Replace,
}
