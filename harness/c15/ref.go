package c15

import (
	"crypto/hmac"
	"encoding/hex"
	"hash"
)

func refHmac(h func() hash.Hash, key, data []byte) []byte {
	m := hmac.New(h, key)
	m.Write(data)
	return []byte(hex.EncodeToString(m.Sum(nil)))
}
