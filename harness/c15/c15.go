// Package c15: re-implemented standard routines agree with the standard library.
package c15

import (
	"crypto/md5"
	"crypto/sha1"
	"crypto/sha256"
	"crypto/sha512"
	"encoding/base64"
	"encoding/hex"
	"hash"
	"io"
	"strconv"

	"github.com/welllog/golib/hashz"
	"github.com/welllog/golib/strz"
	"vh/vx"
)

// ParseUintArb: every string of n arbitrary bytes, base and bitSize symbolic in [-1,37] x [-1,65].
func ParseUintArb() {
	n := vx.Param("n", 2)
	b := vx.Bytes(n, "s")
	s := string(b)
	base := vx.Int("base")
	vx.Assume(vx.And(base >= -1, base <= 37))
	base = vx.Concrete(base) // multiplication/division by a symbolic base is out of the solver's reach
	bits := vx.Int("bits")
	vx.Assume(vx.And(bits >= -1, bits <= 65))
	compareParse(s, b, base, bits)
}

func compareParse(s string, b []byte, base, bits int) {
	want, werr := strconv.ParseUint(s, base, bits)
	got, gerr := strz.ParseUint(s, base, bits)
	vx.Assert((werr == nil) == (gerr == nil), "ParseUint(string): error iff strconv.ParseUint errors")
	vx.Assert(got == want, "ParseUint(string): same value as strconv.ParseUint")
	orig := append([]byte(nil), b...)
	got2, gerr2 := strz.ParseUint(b, base, bits)
	vx.Assert((werr == nil) == (gerr2 == nil), "ParseUint([]byte): error iff strconv.ParseUint errors")
	vx.Assert(got2 == want, "ParseUint([]byte): same value as strconv.ParseUint")
	vx.Assert(vx.EqBytes(b, orig), "ParseUint does not modify its input")
	vx.Observe("val", got, gerr == nil)
}

var digitTab = "0123456789abcdefghijklmnopqrstuvwxyz"

// ParseUintDigits: digit-only strings of n digits in a fixed base (symbolic digit values, symbolic letter case),
// reaching the 64-bit cut-off; bitSize symbolic.
func ParseUintDigits() {
	n := vx.Param("n", 20)
	base := vx.Param("base", 10)
	free := vx.Param("free", n) // only the first `free` digits may be letters (bounds the 2^n class patterns)
	b := make([]byte, n)
	for i := range b {
		d := vx.Byte("d")
		vx.Assume(d < byte(base))
		if i >= free {
			vx.Assume(d < 10)
		}
		c := vx.IteU8(d < 10, '0'+d, vx.IteU8(vx.Bool("up"), 'A'+d-10, 'a'+d-10))
		b[i] = c
	}
	bits := vx.Int("bits")
	vx.Assume(vx.And(bits >= 0, bits <= 64))
	compareParse(string(b), b, base, bits)
}

// ParseUintBase0: base 0 with prefixes and underscores, alphabet restricted to the characters that matter.
func ParseUintBase0() {
	n := vx.Param("n", 3)
	alpha := "0179_xXoObBaFfg+-"
	b := make([]byte, n)
	for i := range b {
		b[i] = alpha[vx.Choose(len(alpha))]
	}
	bits := vx.Int("bits")
	vx.Assume(vx.And(bits >= 0, bits <= 64))
	compareParse(string(b), b, 0, bits)
}

func errText(e error) string {
	if e == nil {
		return ""
	}
	return e.Error()
}

// HexCodec: HexEncode/HexDecode/HexDecodeInPlace vs encoding/hex for every input of n bytes.
func HexCodec() {
	n := vx.Param("n", 3)
	b := vx.Bytes(n, "s")
	orig := append([]byte(nil), b...)
	// encode
	want := make([]byte, hex.EncodedLen(n))
	hex.Encode(want, b)
	vx.Assert(vx.EqBytes(strz.HexEncode(b), want), "HexEncode([]byte) == hex.Encode")
	vx.Assert(vx.EqBytes(strz.HexEncode(string(b)), want), "HexEncode(string) == hex.Encode")
	vx.Assert(vx.EqStr(strz.HexEncodeToString(b), string(want)), "HexEncodeToString == hex.EncodeToString")
	vx.Assert(vx.EqBytes(b, orig), "HexEncode does not modify its input")
	// decode arbitrary text
	wd := make([]byte, hex.DecodedLen(n))
	wn, werr := hex.Decode(wd, b)
	gd, gerr := strz.HexDecode(b)
	vx.Assert(vx.EqBytes(gd, wd[:wn]), "HexDecode([]byte): same decoded prefix as hex.Decode")
	vx.Assert((werr == nil) == (gerr == nil), "HexDecode([]byte): error iff hex.Decode errors")
	vx.Assert(vx.EqStr(errText(gerr), errText(werr)), "HexDecode([]byte): same error text as hex.Decode")
	gs, gserr := strz.HexDecode(string(b))
	vx.Assert(vx.EqBytes(gs, wd[:wn]), "HexDecode(string): same decoded prefix as hex.Decode")
	vx.Assert(vx.EqStr(errText(gserr), errText(werr)), "HexDecode(string): same error text as hex.Decode")
	ts, tserr := strz.HexDecodeToString(b)
	vx.Assert(vx.EqStr(ts, string(wd[:wn])), "HexDecodeToString: same decoded prefix")
	vx.Assert((tserr == nil) == (werr == nil), "HexDecodeToString: error iff hex.Decode errors")
	vx.Assert(vx.EqBytes(b, orig), "HexDecode does not modify its input")
	// in place
	ip := append([]byte(nil), b...)
	in, ierr := strz.HexDecodeInPlace(ip)
	vx.Assert(in == wn, "HexDecodeInPlace: same count as hex.Decode")
	vx.Assert(vx.EqBytes(ip[:in], wd[:wn]), "HexDecodeInPlace: same decoded prefix as hex.Decode")
	vx.Assert(vx.EqStr(errText(ierr), errText(werr)), "HexDecodeInPlace: same error text as hex.Decode")
	vx.Observe("enc", want, gd, gerr == nil)
}

// Base64Codec: Base64Encode/Decode vs encoding/base64 (Std, URL, RawStd) for every input of n bytes.
func Base64Codec() {
	n := vx.Param("n", 3)
	b := vx.Bytes(n, "s")
	orig := append([]byte(nil), b...)
	var enc *base64.Encoding
	switch vx.Choose(3) {
	case 0:
		enc = base64.StdEncoding
	case 1:
		enc = base64.URLEncoding
	default:
		enc = base64.RawStdEncoding
	}
	want := make([]byte, enc.EncodedLen(n))
	enc.Encode(want, b)
	vx.Assert(vx.EqBytes(strz.Base64Encode(b, enc), want), "Base64Encode([]byte) == enc.Encode")
	vx.Assert(vx.EqBytes(strz.Base64Encode(string(b), enc), want), "Base64Encode(string) == enc.Encode")
	vx.Assert(vx.EqStr(strz.Base64EncodeToString(b, enc), string(want)), "Base64EncodeToString == enc.EncodeToString")
	// round trip through the library decoder
	back, err := strz.Base64Decode(want, enc)
	vx.Assert(err == nil, "Base64Decode of an encoding succeeds")
	vx.Assert(vx.EqBytes(back, orig), "Base64Decode(Base64Encode(s)) == s")
	vx.Assert(vx.EqBytes(b, orig), "Base64Encode does not modify its input")
	vx.Observe("enc", want)
}

// Base64DecodeArb: arbitrary text of n bytes offered to Base64Decode vs enc.Decode.
func Base64DecodeArb() {
	n := vx.Param("n", 4)
	b := vx.Bytes(n, "s")
	orig := append([]byte(nil), b...)
	enc := base64.StdEncoding
	if vx.Choose(2) == 1 {
		enc = base64.URLEncoding
	}
	wd := make([]byte, enc.DecodedLen(n))
	wn, werr := enc.Decode(wd, b)
	gd, gerr := strz.Base64Decode(b, enc)
	vx.Assert((werr == nil) == (gerr == nil), "Base64Decode([]byte): error iff enc.Decode errors")
	vx.Assert(vx.EqBytes(gd, wd[:wn]), "Base64Decode([]byte): same decoded bytes as enc.Decode")
	gs, gserr := strz.Base64DecodeToString(string(b), enc)
	vx.Assert((werr == nil) == (gserr == nil), "Base64DecodeToString(string): error iff enc.Decode errors")
	vx.Assert(vx.EqStr(gs, string(wd[:wn])), "Base64DecodeToString(string): same decoded bytes")
	vx.Assert(vx.EqBytes(b, orig), "Base64Decode does not modify its input")
	vx.Observe("dec", gd, gerr == nil)
}

// IPv4: IPv4ToLong(LongToIPv4(x)) == x for every uint32.
func IPv4() {
	x := vx.Uint32("x")
	s := strz.LongToIPv4(x)
	vx.Assert(strz.IPv4ToLong(s) == x, "IPv4ToLong(LongToIPv4(x)) == x")
}

type chunkReader struct {
	data []byte
	pos  int
	cuts int
}

func (r *chunkReader) Read(p []byte) (int, error) {
	if r.pos >= len(r.data) {
		return 0, io.EOF
	}
	n := len(r.data) - r.pos
	if len(p) < n {
		n = len(p)
	}
	if r.cuts > 0 && n > 1 {
		k := vx.Int("chunk")
		vx.Assume(vx.And(k >= 1, k <= n))
		n = vx.Concrete(k)
		r.cuts--
	}
	copy(p, r.data[r.pos:r.pos+n])
	r.pos += n
	return n, nil
}

// Digests: helper == lower-case hex of the crypto digest (digest = uninterpreted function), string == []byte,
// one-shot == stream for every chunking, input unmodified.
func Digests() {
	n := vx.Param("n", 3)
	b := vx.Bytes(n, "s")
	orig := append([]byte(nil), b...)
	which := vx.Choose(8)
	var got, gotS, want []byte
	var stream []byte
	var serr error
	hx := func(d []byte) []byte { return []byte(hex.EncodeToString(d)) }
	rd := &chunkReader{data: b, cuts: vx.Param("cuts", 1)}
	switch which {
	case 0:
		got, gotS = hashz.Md5(b), hashz.Md5(string(b))
		d := md5.Sum(orig)
		want = hx(d[:])
		stream, serr = hashz.Md5Stream(rd)
	case 1:
		got, gotS = hashz.Sha1(b), hashz.Sha1(string(b))
		d := sha1.Sum(orig)
		want = hx(d[:])
		stream, serr = hashz.Sha1Stream(rd)
	case 2:
		got, gotS = hashz.Sha224(b), hashz.Sha224(string(b))
		d := sha256.Sum224(orig)
		want = hx(d[:])
		stream, serr = hashz.Sha224Stream(rd)
	case 3:
		got, gotS = hashz.Sha256(b), hashz.Sha256(string(b))
		d := sha256.Sum256(orig)
		want = hx(d[:])
		stream, serr = hashz.Sha256Stream(rd)
	case 4:
		got, gotS = hashz.Sha384(b), hashz.Sha384(string(b))
		d := sha512.Sum384(orig)
		want = hx(d[:])
		stream, serr = hashz.Sha384Stream(rd)
	case 5:
		got, gotS = hashz.Sha512(b), hashz.Sha512(string(b))
		d := sha512.Sum512(orig)
		want = hx(d[:])
		stream, serr = hashz.Sha512Stream(rd)
	case 6:
		got, gotS = hashz.Sha512_224(b), hashz.Sha512_224(string(b))
		d := sha512.Sum512_224(orig)
		want = hx(d[:])
		stream = want
	case 7:
		got, gotS = hashz.Sha512_256(b), hashz.Sha512_256(string(b))
		d := sha512.Sum512_256(orig)
		want = hx(d[:])
		stream = want
	}
	vx.Assert(vx.EqBytes(got, want), "digest helper([]byte) == lower-case hex of the crypto digest")
	vx.Assert(vx.EqBytes(gotS, want), "digest helper(string) == lower-case hex of the crypto digest")
	vx.Assert(serr == nil, "stream digest returns no error")
	vx.Assert(vx.EqBytes(stream, want), "stream digest == one-shot digest for every chunking")
	vx.Assert(vx.EqBytes(b, orig), "digest helpers do not modify their input")
}

// Hmacs: Hmac helper == lower-case hex of crypto/hmac for the same key and data; string == []byte.
func Hmacs() {
	nk := vx.Param("nk", 2)
	n := vx.Param("n", 2)
	key := vx.Bytes(nk, "k")
	b := vx.Bytes(n, "s")
	ok, ob := append([]byte(nil), key...), append([]byte(nil), b...)
	var h func() hash.Hash
	switch vx.Choose(3) {
	case 0:
		h = md5.New
	case 1:
		h = sha256.New
	default:
		h = sha512.New
	}
	got := hashz.Hmac(key, b, h)
	gotS := hashz.HmacToString(string(key), string(b), h)
	want := refHmac(h, ok, ob)
	vx.Assert(vx.EqBytes(got, want), "Hmac([]byte) == lower-case hex of crypto/hmac")
	vx.Assert(vx.EqStr(gotS, string(want)), "HmacToString(string) == lower-case hex of crypto/hmac")
	vx.Assert(vx.And(vx.EqBytes(key, ok), vx.EqBytes(b, ob)), "Hmac does not modify its inputs")
}

var Harnesses = map[string]func(){
	"vh/c15.ParseUintArb":    ParseUintArb,
	"vh/c15.ParseUintDigits": ParseUintDigits,
	"vh/c15.ParseUintBase0":  ParseUintBase0,
	"vh/c15.HexCodec":        HexCodec,
	"vh/c15.Base64Codec":     Base64Codec,
	"vh/c15.Base64DecodeArb": Base64DecodeArb,
	"vh/c15.IPv4":            IPv4,
	"vh/c15.Digests":         Digests,
	"vh/c15.Hmacs":           Hmacs,
}
